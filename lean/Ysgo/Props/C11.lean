import Ysgo.Model.Runner
/-!
# C11 — visited / visited_count count completed visits of tracked nodes only

The ghost field `jumpLog` records (source, target) of every successful jump since creation or the last restore.
`visited_count n` = the count adopted at the last restore (0 at creation) + the number of logged jumps whose source is
`n` and whose source node is tracked; it changes by jumps and restores only, never decreases, and `visited n` is true
exactly when it is positive.
-/
namespace Ysgo.C11
open Ysgo
set_option linter.unusedSimpArgs false

variable {σ π μ : Type}

/-- closes the frame goals: projections of record updates, then linear arithmetic -/
local macro "fin" : tactic => `(tactic| first | (simp; done) | (simp; omega) | omega)

/-- the node's header does not say `tracking: never` (names that are not nodes are not tracked) -/
def trackedIn (p : Program) (n : String) : Bool := ((p.find n).map Node.tracked).getD false

/-- number of logged jumps that left node `n`, counted only if `n` is tracked -/
def jumpsLeft (p : Program) (log : List (String × String)) (n : String) : Nat :=
  (log.filter (fun j => j.1 == n && trackedIn p j.1)).length

theorem jumpsLeft_append (p : Program) (log : List (String × String)) (s t n : String) :
    jumpsLeft p (log ++ [(s, t)]) n = jumpsLeft p log n + (if s = n ∧ trackedIn p s = true then 1 else 0) := by
  unfold jumpsLeft
  rw [List.filter_append, List.length_append]
  by_cases h : s = n ∧ trackedIn p s = true
  · simp [h.1, h.2, List.filter]
    rw [← h.1]; simp [h.2]
  · simp only [h, if_false, Nat.add_zero]
    have : ((s == n) && trackedIn p s) = false := by
      by_cases h1 : s = n
      · have : trackedIn p s ≠ true := fun h2 => h ⟨h1, h2⟩
        simp [h1] at this ⊢
        subst h1; simpa using this
      · simp [h1]
    simp [List.filter, this]

/-- C11.1 one statement: the counter of every name moves exactly with the jumps logged by that statement -/
theorem exec_count_invariant (env : Env σ) (mk : Markup π μ) (p : Program) (d : Data σ π) (st : Stmt) (n : String) :
    count (exec env mk p d st).1.visited n + jumpsLeft p d.jumpLog n =
      count d.visited n + jumpsLeft p (exec env mk p d st).1.jumpLog n := by
  cases st with
  | jump e =>
    simp only [exec]
    cases he : eval env d.store d.visited e d.w with
    | mk o w =>
      cases o with
      | ok v =>
        cases v with
        | str t =>
          simp only
          cases hf : p.find t with
          | none => simp
          | some nd =>
            simp only
            rw [jumpsLeft_append]
            unfold trackedIn
            by_cases htr : ((p.find d.cur).map Node.tracked).getD false = true
            · simp only [htr, if_true]
              rw [count_bump]
              by_cases hn : n = d.cur
              · subst hn; simp [htr]; omega
              · have : ¬ d.cur = n := fun e => hn e.symm
                simp [hn, this]
            · simp only [htr, if_false]
              simp [htr]
        | num x => simp
        | bool b => simp
      | err k => simp
      | panic q => simp
  | line l => simp only [exec]; split <;> fin
  | opts os => simp only [exec]; split <;> fin
  | set v op e =>
    simp only [exec]
    split
    · split <;> fin
    · fin
    · fin
  | ifs cs => simp only [exec]; split <;> fin
  | cmd elems =>
    simp only [exec]
    split
    · fin
    · split
      · split
        · fin
        · split <;> fin
      · fin
      · fin
      · fin
  | call f args =>
    simp only [exec]
    split
    · split <;> fin
    · fin
    · fin
  | empty => simp [exec]

/-- the invariant of the property: counter = adopted base + tracked jumps that left the node -/
def CountInv (p : Program) (base : String → Nat) (d : Data σ π) : Prop :=
  ∀ n, count d.visited n = base n + jumpsLeft p d.jumpLog n

/-- C11.1 `visited_count_eq_jumps_left`: the invariant is preserved by every statement of every program … -/
theorem visited_count_eq_jumps_left (env : Env σ) (mk : Markup π μ) (p : Program) (base : String → Nat) (d : Data σ π)
    (st : Stmt) (h : CountInv p base d) : CountInv p base (exec env mk p d st).1 := by
  intro n
  have h1 := exec_count_invariant env mk p d st n
  have h2 := h n
  omega

/-- … holds at creation with base 0 (everything counts 0) … -/
theorem count_inv_init (p : Program) (store : Store) (w : W σ) (ms : π) (r : R σ π) (h : R.init p store w ms = some r) :
    CountInv p (fun _ => 0) r.d := by
  unfold R.init at h
  cases p with
  | nil => simp at h
  | cons n ns => simp only [Option.some.injEq] at h; subst h; intro k; simp [count, Map.get, jumpsLeft]

/-- … and after a restore with the snapshot's counters as the base -/
theorem count_inv_restore (p : Program) (r r' : R σ π) (s : Snapshot) (h : r.restore p s = some r') :
    CountInv p (fun n => count s.visited n) r'.d := by
  unfold R.restore at h
  cases hf : p.find s.node with
  | none => simp [hf] at h
  | some n => simp only [hf, Option.some.injEq] at h; subst h; intro k; simp [jumpsLeft]

/-- polling and choice consumption do not touch the counters: with `exec` these are all the ways a `Next` acts -/
theorem poll_keeps_counts (d : Data σ π) : (poll (μ := μ) d).1.visited = d.visited ∧ (poll (μ := μ) d).1.jumpLog = d.jumpLog := by
  unfold poll
  split
  · simp
  · simp
  · split <;> simp

/-- nodes whose header says `tracking: never`, and names that are not nodes, stay at their base (0 without restore) -/
theorem untracked_counts_never_change (env : Env σ) (mk : Markup π μ) (p : Program) (d : Data σ π) (st : Stmt) (n : String)
    (h : trackedIn p n = false) : count (exec env mk p d st).1.visited n = count d.visited n := by
  have h1 := exec_count_invariant env mk p d st n
  have : ∀ log, jumpsLeft p log n = 0 := by
    intro log
    unfold jumpsLeft
    have : ∀ j : String × String, ((j.1 == n) && trackedIn p j.1) = false := by
      intro j
      by_cases e : j.1 = n
      · rw [e, h]; simp
      · simp [e]
    simp [this]
  rw [this, this] at h1
  omega

theorem not_a_node_is_untracked (p : Program) (n : String) (h : p.find n = none) : trackedIn p n = false := by
  simp [trackedIn, h]

theorem tracking_never_is_untracked (p : Program) (n : String) (nd : Node) (h : p.find n = some nd) (ht : nd.tracking = "never") :
    trackedIn p n = false := by
  simp [trackedIn, h, Node.tracked, ht]

/-- C11.3 `counts_monotone`: counts never decrease during a run -/
theorem counts_monotone (env : Env σ) (mk : Markup π μ) (p : Program) (d : Data σ π) (st : Stmt) (n : String) :
    count d.visited n ≤ count (exec env mk p d st).1.visited n := by
  have h1 := exec_count_invariant env mk p d st n
  have h2 : jumpsLeft p d.jumpLog n ≤ jumpsLeft p (exec env mk p d st).1.jumpLog n := by
    -- the log only grows
    have hlog : (exec env mk p d st).1.jumpLog = d.jumpLog ∨ ∃ s t, (exec env mk p d st).1.jumpLog = d.jumpLog ++ [(s, t)] := by
      cases st with
      | jump e =>
        simp only [exec]
        cases he : eval env d.store d.visited e d.w with
        | mk o w =>
          cases o with
          | ok v =>
            cases v with
            | str t =>
              simp only
              cases hf : p.find t with
              | none => left; rfl
              | some nd => right; exact ⟨d.cur, nd.title, rfl⟩
            | num x => left; rfl
            | bool b => left; rfl
          | err k => left; rfl
          | panic q => left; rfl
      | line l => left; simp only [exec]; split <;> rfl
      | opts os => left; simp only [exec]; split <;> rfl
      | set v op e =>
        left; simp only [exec]
        split
        · split <;> rfl
        · rfl
        · rfl
      | ifs cs => left; simp only [exec]; split <;> rfl
      | cmd elems =>
        left; simp only [exec]
        split
        · rfl
        · split
          · split
            · rfl
            · split <;> rfl
          · rfl
          · rfl
          · rfl
      | call f args =>
        left; simp only [exec]
        split
        · split <;> rfl
        · rfl
        · rfl
      | empty => left; rfl
    rcases hlog with h | ⟨s, t, h⟩
    · rw [h]; exact Nat.le_refl _
    · rw [h, jumpsLeft_append]; omega
  omega

/-! ### C11.2 `visited_iff_positive` -/

/-- no key of the visit map is bound to 0 (keys are only created by `++`) -/
def NoZero (v : Map Nat) : Prop := ∀ k x, v.get k = some x → 0 < x

theorem visited_iff_positive (v : Map Nat) (h : NoZero v) (n : String) : v.contains n = true ↔ 0 < count v n := by
  unfold Map.contains count
  cases hg : v.get n with
  | none => simp
  | some x => simp; exact h n x hg

theorem nozero_init : NoZero [] := by intro k x h; simp [Map.get] at h

theorem nozero_exec (env : Env σ) (mk : Markup π μ) (p : Program) (d : Data σ π) (st : Stmt) (h : NoZero d.visited) :
    NoZero (exec env mk p d st).1.visited := by
  have key : (exec env mk p d st).1.visited = d.visited ∨ (exec env mk p d st).1.visited = bump d.visited d.cur := by
    cases st with
    | jump e =>
      simp only [exec]
      cases he : eval env d.store d.visited e d.w with
      | mk o w =>
        cases o with
        | ok v =>
          cases v with
          | str t =>
            simp only
            cases hf : p.find t with
            | none => left; rfl
            | some nd =>
              simp only
              by_cases htr : ((p.find d.cur).map Node.tracked).getD false = true
              · right; simp [htr]
              · left; simp [htr]
          | num x => left; rfl
          | bool b => left; rfl
        | err k => left; rfl
        | panic q => left; rfl
    | line l => left; simp only [exec]; split <;> rfl
    | opts os => left; simp only [exec]; split <;> rfl
    | set v op e =>
      left; simp only [exec]
      split
      · split <;> rfl
      · rfl
      · rfl
    | ifs cs => left; simp only [exec]; split <;> rfl
    | cmd elems =>
      left; simp only [exec]
      split
      · rfl
      · split
        · split
          · rfl
          · split <;> rfl
        · rfl
        · rfl
        · rfl
    | call f args =>
      left; simp only [exec]
      split
      · split <;> rfl
      · rfl
      · rfl
    | empty => left; rfl
  rcases key with h1 | h1
  · rw [h1]; exact h
  · rw [h1]; intro k x hx; exact bump_pos d.visited d.cur k h x hx

/-- non-vacuity: after one tracked jump out of `A` the counter of `A` is 1 and `visited("A")` is true -/
example : count (bump [] "A") "A" = 1 ∧ (bump [] "A").contains "A" = true := by decide

end Ysgo.C11
