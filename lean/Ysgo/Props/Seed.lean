import Ysgo.Lemmas.Seed
import Ysgo.Model.Rng
/-!
# Seeds (C05 theorem 2 `seed_total`, C09 theorem 3 `seed_base36`)

`seedToInt64` is total (no overflow panic for any length: the result always lies in the int64 range), accepts exactly the
strings over `[0-9a-z]`, and returns the base-36 value of the string modulo 2^64 in two's complement.
-/
namespace Ysgo.Seed

/-- **C05.2 (a) `seed_total`**: for every string `seedToInt64` answers — an error, or a value of the int64 range; the
multiplication and addition wrap around, there is no overflow failure for any length. -/
theorem seed_total (s : List Char) :
    seedToInt64 s = none ∨ ∃ v, seedToInt64 s = some v ∧ -9223372036854775808 ≤ v ∧ v < 9223372036854775808 := by
  cases h : seedToInt64 s with
  | none => exact Or.inl rfl
  | some v => exact Or.inr ⟨v, rfl, go_range s 0 v (by omega) h⟩

/-- **C05.2 (b) `accepts_iff`**: exactly the strings over `[0-9a-z]` (the empty one included) are accepted. -/
theorem accepts_iff (s : List Char) : (seedToInt64 s).isSome ↔ ∀ c ∈ s, IsSeedChar c := by
  rw [← base36From_isSome_iff s 0]
  have h := (go_spec s 0 0 rfl).1
  unfold seedToInt64
  cases hg : go s 0 with
  | none => rw [h.mp hg]; exact Iff.rfl
  | some r =>
    cases hb : base36From s 0 with
    | none => rw [h.mpr hb] at hg; cases hg
    | some m => simp

/-- **C05.2 (c) / C09.3 `seed_spec`** (`seed_base36`): the result is the base-36 value of the string reduced modulo 2^64
into the two's-complement range. -/
theorem seed_spec (s : List Char) (v : Int) (h : seedToInt64 s = some v) :
    ∃ n, base36 s = some n ∧ v = wrap n := by
  obtain ⟨m, hm, hmod⟩ := (go_spec s 0 0 rfl).2 v h
  refine ⟨m, hm, ?_⟩
  rw [← wrap_congr v m hmod]
  exact (wrap_of_range v (go_range s 0 v (by omega) h)).symm

/-- seeds below 2^63 are read exactly -/
theorem seed_exact_small (s : List Char) (n : Nat) (h : base36 s = some n) (hn : n < 9223372036854775808) :
    seedToInt64 s = some (n : Int) := by
  cases hg : seedToInt64 s with
  | none =>
    have := (go_spec s 0 0 rfl).1.mp hg
    unfold base36 at h
    rw [h] at this; cases this
  | some v =>
    obtain ⟨m, hm, hv⟩ := seed_spec s v hg
    rw [h] at hm
    cases hm
    have hw : wrap (n : Int) = n := wrap_of_range _ ⟨by omega, by omega⟩
    rw [hv, hw]

/-- `rng.NewRNG`: an error exactly for a non-empty seed containing a character outside `[0-9a-z]` -/
theorem newRng_invalid_iff (s : List Char) : newRng s = .invalid ↔ ∃ c ∈ s, ¬ IsSeedChar c := by
  have ha := accepts_iff s
  unfold newRng
  cases s with
  | nil => simp
  | cons c cs =>
    simp only [List.isEmpty_cons, Bool.false_eq_true, ↓reduceIte]
    cases hs : seedToInt64 (c :: cs) with
    | some v =>
      rw [hs] at ha
      simp only [Option.isSome_some, true_iff] at ha
      constructor
      · intro h; cases h
      · rintro ⟨d, hd, hn⟩; exact absurd (ha d hd) hn
    | none =>
      rw [hs] at ha
      simp only [Option.isSome_none, Bool.false_eq_true, false_iff] at ha
      constructor
      · intro _
        exact Classical.not_forall_not.mp (fun hall => ha (fun d hd => Classical.not_not.mp (fun hn => hall d ⟨hd, hn⟩)))
      · intro _; rfl

/-- the runner model's `Rng.seedToInt64` (a fold over the string) is this function -/
theorem rng_seedToInt64_eq (s : String) : Rng.seedToInt64 s = seedToInt64 s.toList := by
  unfold Rng.seedToInt64 seedToInt64
  suffices h : ∀ (l : List Char) (acc : Option Int),
      l.foldl (fun acc c =>
        match acc with
        | none => none
        | some r =>
          if '0' ≤ c ∧ c ≤ '9' then some (Rng.wrap64 (36 * r + (c.toNat - 48)))
          else if 'a' ≤ c ∧ c ≤ 'z' then some (Rng.wrap64 (36 * r + (c.toNat - 97 + 10)))
          else none) acc = (match acc with | none => none | some r => go l r) from h s.toList (some 0)
  intro l
  induction l with
  | nil => intro acc; cases acc <;> simp [go]
  | cons c cs ih =>
    intro acc
    rw [List.foldl_cons, ih]
    cases acc with
    | none => rfl
    | some r =>
      simp only [go, digit]
      by_cases h1 : '0' ≤ c ∧ c ≤ '9'
      · simp only [h1, and_self, ↓reduceIte]
        have h48 : 48 ≤ c.toNat := h1.1
        congr 1
        unfold Rng.wrap64 wrap P63 P64
        simp only []
        omega
      · by_cases h2 : 'a' ≤ c ∧ c ≤ 'z'
        · simp only [h1, h2, and_self, ↓reduceIte]
          have h97 : 97 ≤ c.toNat := h2.1
          congr 1
          unfold Rng.wrap64 wrap P63 P64
          simp only []
          omega
        · simp only [h1, h2, ↓reduceIte]

/-! ### non-vacuity -/

example : seedToInt64 "seed".toList = some 1325029 := by decide
example : base36 "seed".toList = some 1325029 := by decide
/-- 36^13 > 2^64: thirteen `z` wrap around (the unbounded value is 36^13 - 1) -/
example : seedToInt64 "zzzzzzzzzzzzz".toList = some 4561031516192243711 := by decide
example : base36 "zzzzzzzzzzzzz".toList = some 170581728179578208255 := by decide
/-- 2^63 in base 36 reads as the most negative int64 -/
example : seedToInt64 "1y2p0ij32e8e8".toList = some (-9223372036854775808) := by decide
example : seedToInt64 "Seed".toList = none := by decide
example : newRng "a b".toList = .invalid := by decide
example : newRng [] = .random := by decide

end Ysgo.Seed
