import Ysgo.Lemmas.MarkupRange
/-!
# C15 — markup parsing is total and its results are safe to use

All statements are about `parseCore` / `parseRunes` / `parseLine` of `Ysgo/Model/Markup.lean`, for every list of runes
(the runes of arbitrary bytes included: an invalid byte is U+FFFD) and every incoming parser state.
-/
namespace Ysgo.Markup

/-- C15.1: with fuel = length + 1 (or more) for the main loop and for the property loops, parsing never runs out of fuel:
every iteration of every loop of the Go code consumes at least one rune or terminates. -/
theorem parse_total (st : ParserState) (input : List Char) (k j : Nat) (s : PS) :
    parseCore (input.length + 1 + k) (input.length + 1 + j) st input ≠ .oof s := by
  intro h
  have := parseCore_sat (input.length + 1 + k) (input.length + 1 + j) st input (by omega) (by omega)
  simp only [h, Res.Sat] at this

/-- the core never panics either -/
theorem parseCore_never_panics (st : ParserState) (input : List Char) (k j : Nat) (s : PS) :
    parseCore (input.length + 1 + k) (input.length + 1 + j) st input ≠ .panic s := by
  intro h
  have := parseCore_sat (input.length + 1 + k) (input.length + 1 + j) st input (by omega) (by omega)
  simp only [h, Res.Sat] at this

/-- C15.2: every attribute of every result lies inside the returned text, counted in characters; positions and lengths
are computed in `Int` (Go `int`), so non-negativity is part of the statement -/
theorem attributes_in_range (st st' : ParserState) (input : List Char) (res : ParseResult)
    (h : parseRunes st input = (st', .ok res)) :
    ∀ a ∈ res.attrs, 0 ≤ a.position ∧ 0 ≤ a.length ∧ a.position + a.length ≤ (res.text.length : Int) := by
  have hs := parseCore_sat (input.length + 1) (input.length + 1) st input (by omega) (by omega)
  unfold parseRunes at h
  cases hc : parseCore (input.length + 1) (input.length + 1) st input with
  | ok r s =>
    simp only [hc, Prod.mk.injEq, Outcome.ok.injEq] at h
    simp only [hc, Res.Sat] at hs
    rw [← h.2]
    exact hs
  | err _ => simp [hc] at h
  | panic _ => simp [hc] at h
  | oof _ => simp [hc] at h

/-- C15.4: parsing never panics (running out of fuel is reported as `panic` by `parseRunes`, so this covers C15.1 too) -/
theorem parse_never_panics (st : ParserState) (input : List Char) : (parseRunes st input).2 ≠ .panic := by
  have hs := parseCore_sat (input.length + 1) (input.length + 1) st input (by omega) (by omega)
  unfold parseRunes
  cases hc : parseCore (input.length + 1) (input.length + 1) st input with
  | ok r s => simp
  | err _ => simp
  | panic _ => simp only [hc, Res.Sat] at hs
  | oof _ => simp only [hc, Res.Sat] at hs

/-- on a range inside the text `TextForAttribute` returns the enclosed characters -/
theorem textForAttribute_of_range (res : ParseResult) (a : Attr)
    (h : 0 ≤ a.position ∧ 0 ≤ a.length ∧ a.position + a.length ≤ (res.text.length : Int)) :
    textForAttribute res a =
      .ok (String.ofList ((res.text.toList.drop a.position.toNat).take a.length.toNat)) := by
  unfold textForAttribute
  by_cases h0 : a.length = 0
  · simp [h0]
  · have hlen : (res.text.toList.length : Int) = res.text.length := by rw [String.length_toList]
    have hg : ¬ (a.position < 0 ∨ a.length < 0 ∨ (res.text.toList.length : Int) < a.position + a.length) := by omega
    have hsl : 0 ≤ a.position ∧ a.position ≤ a.position + a.length ∧
        a.position + a.length ≤ (res.text.toList.length : Int) := by omega
    have hsub : (a.position + a.length).toNat - a.position.toNat = a.length.toNat := by omega
    simp only [h0, if_false, hg, sliceRunes, hsl, and_self, if_true, hsub]

/-- C15.3: asking for the text of any returned attribute never panics -/
theorem textForAttribute_never_panics (st st' : ParserState) (input : List Char) (res : ParseResult)
    (h : parseRunes st input = (st', .ok res)) :
    ∀ a ∈ res.attrs, textForAttribute res a ≠ .panic := by
  intro a ha
  rw [textForAttribute_of_range res a (attributes_in_range st st' input res h a ha)]
  simp

/-! the same for the `String` entry point used by the runner model -/

theorem parseLine_attributes_in_range (st st' : ParserState) (input : String) (res : ParseResult)
    (h : parseLine st input = (st', .ok res)) :
    ∀ a ∈ res.attrs, 0 ≤ a.position ∧ 0 ≤ a.length ∧ a.position + a.length ≤ (res.text.length : Int) :=
  attributes_in_range st st' input.toList res h

theorem parseLine_never_panics (st : ParserState) (input : String) : (parseLine st input).2 ≠ .panic :=
  parse_never_panics st input.toList

theorem parseLine_textForAttribute_never_panics (st st' : ParserState) (input : String) (res : ParseResult)
    (h : parseLine st input = (st', .ok res)) : ∀ a ∈ res.attrs, textForAttribute res a ≠ .panic :=
  textForAttribute_never_panics st st' input.toList res h

/-! Non-vacuity: results with attributes exist (the lines of DESIGN §5 C15 that used to break the range), and the guard of
`TextForAttribute` is real: outside the range it does panic. -/

example : (match (parseRunes {} " [b]x[/b]".toList).2 with
    | .ok r => r.attrs.map (fun a => (a.position, a.length)) | _ => []) = [(0, 1)] := by decide +kernel
example : (match (parseRunes {} "Hello: ".toList).2 with
    | .ok r => (r.text.length, r.attrs.map (fun a => (a.position, a.length))) | _ => (0, [])) = (6, [(0, 6)]) := by
  decide +kernel

example : textForAttribute { text := "x", attrs := [] }
    { name := "b", position := 1, length := 1, sourcePosition := 0, props := [] } = .panic := by decide +kernel
example : (parseRunes {} "[a".toList).2 = .err := by decide +kernel

#print axioms parse_total
#print axioms attributes_in_range
#print axioms textForAttribute_never_panics
#print axioms parse_never_panics

end Ysgo.Markup
