import Ysgo.Props.C17
import Ysgo.Props.C10
/-!
# C17.3 — `dispatch_once_in_order`: from the command as written to the single handler invocation

Composition of the word-splitting theorems (`Props/C17.lean`, over the model of `tree.go`) with the runner's command
case (`Props/C10.lean`, over the model of `runner.go`): a generic command `<<name arg …>>` written with any spacing and
any inline expressions reaches the handler registered under `name` exactly once, with the classified words and the
evaluated expressions in order.
-/
namespace Ysgo.C17
open Ysgo Ysgo.CmdArgs
set_option linter.unusedSimpArgs false

variable {σ π μ : Type}

/-- the expression list of the command statement the tree builder stores: a classified word is a literal -/
def toExpr : Arg Expr → Expr
  | .word v => .lit v
  | .expr e => e
  | .hole => .null

/-- the values a handler is specified to receive for written arguments: words classified, expressions evaluated in order
(threading the world), stopping at the first failing expression -/
def specArgs (env : Env σ) (st : Store) (vis : Map Nat) : List (Arg Expr) → W σ → Outcome (List Value) × W σ
  | [], w => (.ok [], w)
  | .word v :: r, w => (match specArgs env st vis r w with | (.ok vs, w) => (.ok (v :: vs), w) | x => x)
  | .expr e :: r, w =>
    (match eval env st vis e w with
     | (.ok v, w) => (match specArgs env st vis r w with | (.ok vs, w) => (.ok (v :: vs), w) | x => x)
     | (.err k, w) => (.err k, w)
     | (.panic q, w) => (.panic q, w))
  | .hole :: _, w => (.err .null, w)

/-- evaluating the stored expression list is the specification -/
theorem evalArgs_toExpr (env : Env σ) (st : Store) (vis : Map Nat) :
    ∀ (as : List (Arg Expr)) (w : W σ), evalArgs env st vis (as.map toExpr) w = specArgs env st vis as w
  | [], w => by simp [evalArgs, specArgs]
  | .word v :: r, w => by
    simp only [List.map_cons, toExpr, evalArgs, eval, specArgs]
    rw [evalArgs_toExpr env st vis r w]
    rfl
  | .expr e :: r, w => by
    simp only [List.map_cons, toExpr, evalArgs, specArgs]
    cases he : eval env st vis e w with
    | mk o w₁ =>
      cases o with
      | ok v => simp only; rw [evalArgs_toExpr env st vis r w₁]; rfl
      | err k => rfl
      | panic q => rfl
  | .hole :: r, w => by
    simp [List.map_cons, toExpr, evalArgs, eval, specArgs]

/-- **C17.3 `dispatch_once_in_order`**: the command written as `t₀ {e₁} t₁ … {eₙ} tₙ` (Good segments: words separated by
any white space, any chunking) whose first word is the plain word `name` (not `stop`, not a number or boolean look-alike)
and whose remaining words and expressions evaluate to `vs`: executing the stored statement invokes the handler registered
under `name` exactly once with `vs` — the host state afterwards is the one that single invocation left — and the
outcome of this `Next` is decided by that invocation alone -/
theorem dispatch_once_in_order (env : Env σ) (mk : Markup π μ) (p : Program) (d : Data σ π)
    (segs : List (Seg × Expr)) (last : Seg) (hg : ∀ q ∈ segs, q.1.Good) (hl : last.Good)
    (name : String) (rest : List (Arg Expr))
    (hfirst : expectedArgs (segs.map fun q => (q.1.words, q.2)) last.words = .word (.str name) :: rest)
    (hs : name ≠ "stop") (vs : List Value) (w : W σ) (hev : specArgs env d.store d.visited rest d.w = (.ok vs, w)) :
    let stmt := Stmt.cmd ((rearrange (written segs last)).map toExpr)
    (exec env mk p d stmt).1.w = { w with host := (env.cmd name vs w.host).2 } ∧
    (exec env mk p d stmt).2.2 =
      (match (env.cmd name vs w.host).1 with
       | .done => none
       | .failed => some (.err .cmdFailed)
       | .unknown => some (.err .unknownCmd)
       | .pending => some (.ok .waiting)
       | .panicked => some (.panic .host)) := by
  intro stmt
  have hre : rearrange (written segs last) = .word (.str name) :: rest := by
    rw [args_of_words segs last hg hl, hfirst]
  have hev' : evalArgs env d.store d.visited ((rearrange (written segs last)).map toExpr) d.w = (.ok (.str name :: vs), w) := by
    rw [evalArgs_toExpr, hre]
    simp [specArgs, hev]
  have hne : (rearrange (written segs last)).map toExpr = toExpr (.word (.str name)) :: rest.map toExpr := by rw [hre]; rfl
  constructor
  · show (exec env mk p d (.cmd ((rearrange (written segs last)).map toExpr))).1.w = _
    rw [hne] at hev' ⊢
    exact C10.handler_invoked_exactly_once env mk p d _ _ name vs w hev' hs
  · show (exec env mk p d (.cmd ((rearrange (written segs last)).map toExpr))).2.2 = _
    rw [hne] at hev' ⊢
    cases hc : env.cmd name vs w.host with
    | mk co h =>
      have := C10.dispatch_outcomes env mk p d _ _ name vs w h co hev' hs hc
      rw [this]
      cases co <;> rfl

/-- `<<stop>>`, however it is spaced, is never dispatched: it ends the dialogue -/
theorem stop_never_dispatched_as_written (env : Env σ) (mk : Markup π μ) (p : Program) (d : Data σ π)
    (segs : List (Seg × Expr)) (last : Seg) (hg : ∀ q ∈ segs, q.1.Good) (hl : last.Good) (rest : List (Arg Expr))
    (hfirst : expectedArgs (segs.map fun q => (q.1.words, q.2)) last.words = .word (.str "stop") :: rest)
    (vs : List Value) (w : W σ) (hev : specArgs env d.store d.visited rest d.w = (.ok vs, w)) :
    exec env mk p d (.cmd ((rearrange (written segs last)).map toExpr)) = ({ d with w := w }, .halt, some (.ok .ended)) := by
  have hre : rearrange (written segs last) = .word (.str "stop") :: rest := by
    rw [args_of_words segs last hg hl, hfirst]
  have hev' : evalArgs env d.store d.visited ((rearrange (written segs last)).map toExpr) d.w = (.ok (.str "stop" :: vs), w) := by
    rw [evalArgs_toExpr, hre]
    simp [specArgs, hev]
  have hne : (rearrange (written segs last)).map toExpr = toExpr (.word (.str "stop")) :: rest.map toExpr := by rw [hre]; rfl
  rw [hne] at hev' ⊢
  exact C10.stop_is_never_dispatched env mk p d _ _ vs w hev'

end Ysgo.C17
