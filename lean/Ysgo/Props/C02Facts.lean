import Ysgo.Generated.EvalFacts
import Ysgo.Spec.OpTable
/-!
# C02 — translated facts: the evaluator's decision tables, regenerated from the source on every run

`tools/evalfacts` translates (go/ast) the operator switch of `evaluateBinaryOperation`, its lazy tests and same-type
guard, the built-in registry and the token-to-operator maps into Lean data (`Generated/EvalFacts.lean`). The data is
*interpreted* here (`interpSwitch`) and proved equal to the hand-written model (`binSwitch`, `lazyTest`, `builtinNames`)
for all operators and operand values, so this part of the model is regenerated from what the code says now: a change of
the switch (another Go operator, swapped operands, a guard moved) regenerates other data and breaks the theorem.
-/
namespace Ysgo.C02Facts
open Ysgo

def opName : BinOp → String
  | .mul => "Multiplication" | .div => "Division" | .mod => "Modulo" | .add => "Addition" | .sub => "Subtraction"
  | .le => "LessThanEquals" | .ge => "GreaterThanEquals" | .lt => "Less" | .gt => "Greater"
  | .eq => "Equals" | .ne => "NotEquals" | .and => "And" | .or => "Or" | .xor => "Xor"

/-- does the guard `bothOperandsAre<g>` hold of the two values -/
def guardHolds (g : String) (a b : Value) : Bool :=
  match g, a, b with
  | "Numbers", .num _, .num _ => true
  | "Booleans", .bool _, .bool _ => true
  | "Strings", .str _, .str _ => true
  | _, _, _ => false

/-- the meaning of a canonical result string of the translator: constructor, Go operator or function, operand order -/
def interpResult (r : String) (a b : Value) : Option Value :=
  match r, a, b with
  | "right", _, v => some v
  | "left", v, _ => some v
  | "num:*:LR", .num x, .num y => some (.num (x.mul y))
  | "num:/:LR", .num x, .num y => some (.num (x.div y))
  | "num:math.Mod:LR", .num x, .num y => some (.num (x.fmod y))
  | "num:+:LR", .num x, .num y => some (.num (x.add y))
  | "num:-:LR", .num x, .num y => some (.num (x.sub y))
  | "str:+:LR", .str x, .str y => some (.str (x ++ y))
  | "bool:<=:LR", .num x, .num y => some (.bool (x.le y))
  | "bool:>=:LR", .num x, .num y => some (.bool (x.ge y))
  | "bool:<:LR", .num x, .num y => some (.bool (x.lt y))
  | "bool:>:LR", .num x, .num y => some (.bool (x.gt y))
  | "bool:==:LR", .num x, .num y => some (.bool (x.eq y))
  | "bool:==:LR", .bool x, .bool y => some (.bool (x == y))
  | "bool:==:LR", .str x, .str y => some (.bool (x == y))
  | "bool:!=:LR", .num x, .num y => some (.bool (x.ne y))
  | "bool:!=:LR", .bool x, .bool y => some (.bool (x != y))
  | "bool:!=:LR", .str x, .str y => some (.bool (x != y))
  | "bool:xor:LR", .bool x, .bool y => some (.bool ((x && !y) || (!x && y)))
  | _, _, _ => none

/-- run one case of the translated switch: the first guard that holds decides; otherwise the trailing error return
(`illTyped`), or — when the case has none — the function's final "unknown operator" error -/
def interpCase (grs : List (String × String)) (hasError : Bool) (a b : Value) : Outcome Value :=
  match grs.find? (fun gr => guardHolds gr.1 a b) with
  | some gr => (match interpResult gr.2 a b with | some v => .ok v | none => .err .unmodelled)
  | none => if hasError then .err .illTyped else .err .other

def interpSwitch (tbl : List (String × List (String × String) × Bool)) (op : BinOp) (a b : Value) : Outcome Value :=
  match tbl.find? (fun e => e.1 == opName op) with
  | some e => interpCase e.2.1 e.2.2 a b
  | none => .err .other

/-- the operator switch of the code, as translated just now, IS the model's `binSwitch` — for every operator and all
operand values -/
theorem opSwitch_is_model (op : BinOp) (a b : Value) : interpSwitch Generated.opSwitch op a b = binSwitch op a b := by
  cases op <;> cases a <;> cases b <;>
    simp [interpSwitch, Generated.opSwitch, opName, interpCase, guardHolds, interpResult, binSwitch, numBin, numCmp, List.find?]

/-- the lazy tests of the code are the model's: `and` returns a false left value, `or` a true one, nothing else is lazy -/
theorem lazyTests_are_model :
    Generated.lazyTests = [("And", "!*leftOperandValue.Boolean"), ("Or", "*leftOperandValue.Boolean")] ∧
    lazyTest .and (.bool false) = some (.ok (.bool false)) ∧ lazyTest .and (.bool true) = none ∧
    lazyTest .or (.bool true) = some (.ok (.bool true)) ∧ lazyTest .or (.bool false) = none ∧
    (∀ op a, op ≠ .and → op ≠ .or → lazyTest op a = none) := by
  refine ⟨by decide, rfl, rfl, rfl, rfl, ?_⟩
  intro op a h1 h2
  cases op <;> simp_all [lazyTest]

/-- the same-type guard is in place and its three flags are computed from both operands -/
theorem sameTypeGuard_is_model :
    Generated.sameTypeGuard = true ∧
    Generated.guards = [("Numbers", "leftOperandValue.Number != nil && rightOperandValue.Number != nil"),
                        ("Booleans", "leftOperandValue.Boolean != nil && rightOperandValue.Boolean != nil"),
                        ("Strings", "leftOperandValue.String != nil && rightOperandValue.String != nil")] := by
  decide

/-- the built-in registry: exactly the model's names, each bound to the Go function the model mirrors -/
theorem builtin_registry_is_model :
    Generated.builtinRegistry =
      [("bool", "toBoolean"), ("ceil", "ceil"), ("dec", "dec"), ("decimal", "decimal"), ("dice", "checkedDice(rng)"),
       ("floor", "floor"), ("inc", "inc"), ("integer", "integer"), ("number", "toFloat"), ("random", "random(rng)"),
       ("random_range", "checkedRandomRange(rng)"), ("round", "round"), ("round_places", "roundPlaces"), ("string", "toString")] ∧
    Generated.runnerBuiltins = ["visited", "visited_count"] ∧
    (Generated.builtinRegistry.map (·.1) ++ Generated.runnerBuiltins).all (fun n => builtinNames.contains n) = true ∧
    builtinNames.all (fun n => (Generated.builtinRegistry.map (·.1) ++ Generated.runnerBuiltins).contains n) = true := by
  decide

/-- the token-to-operator maps of the tree builder: every operator token maps to the operator of the same name -/
theorem token_maps_are_model :
    Generated.tokenToBinary =
      [("OPERATOR_LOGICAL_AND", "AndBinaryOperator"), ("OPERATOR_LOGICAL_EQUALS", "EqualsBinaryOperator"),
       ("OPERATOR_LOGICAL_GREATER", "GreaterBinaryOperator"), ("OPERATOR_LOGICAL_GREATER_THAN_EQUALS", "GreaterThanEqualsBinaryOperator"),
       ("OPERATOR_LOGICAL_LESS", "LessBinaryOperator"), ("OPERATOR_LOGICAL_LESS_THAN_EQUALS", "LessThanEqualsBinaryOperator"),
       ("OPERATOR_LOGICAL_NOT_EQUALS", "NotEqualsBinaryOperator"), ("OPERATOR_LOGICAL_OR", "OrBinaryOperator"),
       ("OPERATOR_LOGICAL_XOR", "XorBinaryOperator"), ("OPERATOR_MATHS_ADDITION", "AdditionBinaryOperator"),
       ("OPERATOR_MATHS_DIVISION", "DivisionBinaryOperator"), ("OPERATOR_MATHS_MODULUS", "ModuloBinaryOperator"),
       ("OPERATOR_MATHS_MULTIPLICATION", "MultiplicationBinaryOperator"), ("OPERATOR_MATHS_SUBTRACTION", "SubtractionBinaryOperator")] ∧
    Generated.tokenToInplace =
      [("OPERATOR_ASSIGNMENT", "AssignmentInPlaceOperator"), ("OPERATOR_MATHS_ADDITION_EQUALS", "AdditionInPlaceOperator"),
       ("OPERATOR_MATHS_DIVISION_EQUALS", "DivisionInPlaceOperator"), ("OPERATOR_MATHS_MODULUS_EQUALS", "ModuloInPlaceOperator"),
       ("OPERATOR_MATHS_MULTIPLICATION_EQUALS", "MultiplicationInPlaceOperator"),
       ("OPERATOR_MATHS_SUBTRACTION_EQUALS", "SubtractionInPlaceOperator")] ∧
    Generated.operatorConsts.length = 20 := by
  decide

end Ysgo.C02Facts
