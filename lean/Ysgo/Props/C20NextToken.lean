import Ysgo.Lemmas.NextTokenPull
import Ysgo.Props.C20
/-!
# C20 — what the parser RECEIVES from `IndentAwareLexer.NextToken`

`Ysgo/Props/C20.lean` proves the three ingredients separately: the ring buffer is a FIFO (`queue_refines_fifo`),
the indentation logic never pops an empty stack (`indent_stack_ops_never_panic`) and the token kinds in ENQUEUE
order, `Indent.lex`, are balanced (`indent_balanced`). Here they are composed over the literal model of the plumbing
(`Ysgo/Model/NextToken.lean`: `NextToken`, `checkNextToken`, `handleNewLineToken`, `handleEndOfFileToken`,
`insertToken` over `Ysgo.Queue` and `Ysgo.Stack`, for an arbitrary list of base tokens):

* every `NextToken` call, from every reachable state, returns a token: no panic of `Dequeue` / `Pop` / `Peek`, no
  `nil` (`nextToken_delivers`, `nextToken_never_panics`, `nextToken_never_nil_before_eof`);
* the `hitEOF` branch is dead (`hitEOF_branch_dead`);
* the tokens received up to and including the first `EOF` are `expected [] base` — every base token in place, every
  NEWLINE directly followed by its synthetic tokens, `DEDENT`s and `EOF` at the end (`pull_eq_expected`), whose kinds
  are `Indent.lex` of the NEWLINE tokens and whose ordinary tokens are the base's (`pull_eq_lex`);
* hence the DELIVERED stream is balanced (`delivered_balanced`).

The queue enters through `Queue.enqueue_abs`, `Queue.dequeue_abs`, `Queue.size_eq` (the single steps of
`queue_refines_fifo`; `Ysgo.C20.queue_enqueue`, `queue_dequeue`, `queue_size`), the stack through
`Indent.pop_reverse_cons`, `Indent.peekOr0_reverse` (the steps of `indent_stack_ops_never_panic`).
-/
namespace Ysgo.C20
open Ysgo.Container Ysgo.NextToken
open Ysgo.Indent (LineInfo)

/-! ## every call returns a token -/

/-- **C20.4a** In every state reachable from the initial one by `NextToken` calls — before AND after the `EOF`
token has been delivered — the next call returns a token: it does not panic and does not return `nil`. -/
theorem nextToken_delivers (base : List BaseTok) (s : State) (h : Reach base s) :
    ∃ t s', nextToken s = .ok (some t, s') := by
  obtain ⟨q, st, bs, hi⟩ := reach_inv h
  obtain ⟨t, s', _, e, _, _⟩ := nextToken_total hi
  exact ⟨t, s', e⟩

/-- no `Dequeue` of an empty queue, no `Pop` / `Peek` of an empty stack (and no loop runs out of its fuel) -/
theorem nextToken_never_panics (base : List BaseTok) (s : State) (h : Reach base s) : nextToken s ≠ .panic := by
  obtain ⟨t, s', e⟩ := nextToken_delivers base s h
  rw [e]; simp

/-- the `return nil` of `NextToken` is never reached and no `nil` comes out of the queue — until the `EOF` token
has been delivered and, in fact, for ever after (each further call enqueues a further `EOF`) -/
theorem nextToken_never_nil_before_eof (base : List BaseTok) (s : State) (h : Reach base s) :
    ∀ s', nextToken s ≠ .ok (none, s') := by
  obtain ⟨t, s1, e⟩ := nextToken_delivers base s h
  intro s'
  rw [e]; simp

/-- the same, seen from the parser: however many calls it makes, they end because `EOF` arrived (or because the
count is used up), never because of a panic or a `nil` -/
theorem pull_never_stops_badly (base : List BaseTok) (fuel : Nat) :
    (pullGo fuel (init base)).2 = .eof ∨ (pullGo fuel (init base)).2 = .fuel := by
  suffices ∀ (fuel : Nat) (s : State), Reach base s → (pullGo fuel s).2 = .eof ∨ (pullGo fuel s).2 = .fuel from
    this fuel _ .init
  intro fuel
  induction fuel with
  | zero => intro s _; simp [pullGo]
  | succ fuel ih =>
    intro s h
    obtain ⟨t, s', e⟩ := nextToken_delivers base s h
    by_cases ht : t = .eof
    · simp [pullGo, e, ht]
    · simpa [pullGo, e, ht] using ih s' (.step h e)

/-- **C20.4b** `hitEOF` is never set: in every reachable state it is `false`, so the first statement of
`NextToken` (`if ial.hitEOF && ial.pendingTokens.Size() > 0 { return ial.pendingTokens.Dequeue() }`) is dead code
and every call goes through `checkNextToken`. -/
theorem hitEOF_branch_dead (base : List BaseTok) (s : State) (h : Reach base s) : s.hitEOF = false := by
  obtain ⟨_, _, _, hi⟩ := reach_inv h
  exact hi.hit

/-! ## what the parser receives -/

/-- **C20.4c** For every list of base tokens: calling `NextToken` until `EOF` arrives yields exactly
`expected [] base` and ends at its `EOF`, as soon as `|expected [] base|` calls are allowed — one call per delivered
token. -/
theorem pull_eq_expected (base : List BaseTok) (fuel : Nat) (hf : (expected [] base).length ≤ fuel) :
    pullGo fuel (init base) = (expected [] base, .eof) := by
  have := pullGo_expected base [] [] (init base) fuel (inv_init base) (by simp) (by simpa using hf)
  simpa using this

/-- the number of calls: at most three per base token (the token, an `INDENT`, the `DEDENT` that closes it) and one
for the `EOF`. (A bound of the form `|base| + depth + 2` does not hold: see the example below.) -/
theorem calls_needed (base : List BaseTok) : (expected [] base).length ≤ 3 * base.length + 1 := by
  simpa using expected_length base []

/-- with fewer calls the parser has received the corresponding prefix -/
theorem pull_prefix (base : List BaseTok) (n : Nat) : pull n (init base) = (expected [] base).take n := by
  have key : ∀ (n k : Nat) (s : State), (pullGo n s).1 = ((pullGo (n + k) s).1).take n := by
    intro n k
    induction n with
    | zero => intro s; simp [pullGo]
    | succ n ih =>
      intro s
      have e : n + 1 + k = (n + k) + 1 := by omega
      rw [e]
      simp only [pullGo]
      cases nextToken s with
      | panic => simp
      | ok p =>
        obtain ⟨r, s'⟩ := p
        cases r with
        | none => simp
        | some t =>
          by_cases ht : t = .eof
          · simp [ht]
          · simp [ht, ih s']
  have := key n (expected [] base).length (init base)
  rw [pull_eq_expected base (n + (expected [] base).length) (by omega)] at this
  exact this

/-- **C20.4d** (`pull_eq_lex`) The tokens delivered to the parser, up to and including the first `EOF`:
projected to the kinds NEWLINE / INDENT / DEDENT / EOF they are `Indent.lex` of the `LineInfo`s of the base NEWLINE
tokens — delivery order = enqueue order —, their ordinary tokens are the base lexer's, all of them, in order, and
the calls end because `EOF` arrived. (`pull_eq_expected` says where exactly the ordinary tokens sit.) -/
theorem pull_eq_lex (base : List BaseTok) (fuel : Nat) (hf : 3 * base.length + 1 ≤ fuel) :
    (pull fuel (init base)).filterMap kind = Indent.lex (infos base) ∧
    (pull fuel (init base)).filterMap payload = payloads base ∧
    (pullGo fuel (init base)).2 = .eof := by
  have e := pull_eq_expected base fuel (Nat.le_trans (calls_needed base) hf)
  simp only [pull, e]
  exact ⟨expected_kind base [], expected_payload base [], trivial⟩

/-! ## balance of the delivered stream -/

/-- **C20.4e** The stream the parser receives satisfies the balance clause of C20: it ends with its only `EOF`, no
prefix of it holds more `DEDENT` than `INDENT` tokens, and it holds as many of the one as of the other. -/
theorem delivered_balanced (base : List BaseTok) (fuel : Nat) (hf : 3 * base.length + 1 ≤ fuel) :
    (∃ body, pull fuel (init base) = body ++ [.eof] ∧ .eof ∉ body) ∧
    (∀ p, p <+: pull fuel (init base) →
      p.countP (fun t => kind t = some .dedent) ≤ p.countP (fun t => kind t = some .indent)) ∧
    (pull fuel (init base)).countP (fun t => kind t = some .dedent)
      = (pull fuel (init base)).countP (fun t => kind t = some .indent) := by
  have e := pull_eq_expected base fuel (Nat.le_trans (calls_needed base) hf)
  obtain ⟨_, hpre, hcnt⟩ := indent_balanced (infos base)
  have hk : (expected [] base).filterMap kind = Indent.lex (infos base) := expected_kind base []
  rw [← hk] at hpre hcnt
  simp only [pull, e]
  refine ⟨expected_eof base [], ?_, ?_⟩
  · intro p hp
    have := hpre (p.filterMap kind) (List.IsPrefix.filterMap kind hp)
    rwa [count_kind, count_kind] at this
  · rwa [count_kind, count_kind] at hcnt

/-- the executable check of the `tokens` stream accepts the kinds of the delivered stream -/
theorem delivered_balanced_exec (base : List BaseTok) (fuel : Nat) (hf : 3 * base.length + 1 ≤ fuel) :
    Indent.balanced ((pull fuel (init base)).filterMap kind) = true := by
  rw [(pull_eq_lex base fuel hf).1]
  exact indent_balanced_exec _

/-! ## non-vacuity -/

/-- base tokens of a small nested script: an option (1) with a nested option (2) with a line (3), a whitespace-only
line, a line (4) two levels further out at a width that was never opened, a line (5) at the same width, end of input
with a level still open -/
def exBase : List BaseTok :=
  [.other 1, .nl ⟨4, false, false⟩, .other 2, .nl ⟨8, false, false⟩, .other 3, .nl ⟨3, false, true⟩,
   .nl ⟨2, false, false⟩, .other 4, .nl ⟨2, false, false⟩, .other 5]

/-- what the calls deliver, computed by the literal model (ring buffer, slice, 18 calls) -/
example : pullGo 18 (init exBase) =
    ([.other 1, .nl ⟨4, false, false⟩, .indent 4, .other 2, .nl ⟨8, false, false⟩, .indent 8, .other 3,
      .nl ⟨3, false, true⟩, .nl ⟨2, false, false⟩, .dedent 8, .dedent 4, .other 4, .nl ⟨2, false, false⟩, .indent 2,
      .other 5, .dedent 2, .eof], .eof) := by decide
example : expected [] exBase = pull 18 (init exBase) := by decide
example : (pull 18 (init exBase)).filterMap kind = Indent.lex (infos exBase) := by decide
example : Indent.lex (infos exBase)
    = [.nl, .indent, .nl, .indent, .nl, .nl, .dedent, .dedent, .nl, .indent, .dedent, .eof] := by decide
example : (pull 18 (init exBase)).filterMap payload = [1, 2, 3, 4, 5] := by decide
/-- one call too few: the `EOF` has not arrived -/
example : pullGo 16 (init exBase) = ((expected [] exBase).take 16, .fuel) := by decide
/-- the 17 delivered tokens exceed `|base| + depth + 2 = 10 + 2 + 2`: every re-opened level costs two more calls -/
example : (expected [] exBase).length = 17 ∧ exBase.length = 10 := by decide

/-- the hypothesis `Reach` of the per-call theorems is satisfied by more than the initial state: e.g. the state
after four calls, in which two tokens are pending, two levels are open and six base tokens are still to come -/
example : ∃ s, Reach exBase s ∧ Queue.size s.pending = 2 ∧ s.indents = [4, 8] ∧ s.base.length = 6 :=
  ⟨(states 4 (init exBase))[4]'(by decide), reach_states _ _ _ .init _ (List.getElem_mem _),
    by decide, by decide, by decide⟩

/-- ten nested levels, then the end of the input: eleven tokens are enqueued by one `checkNextToken`, the ring buffer
(capacity 8) has to grow while tokens are pending; delivery order is unaffected -/
def exDeep : List BaseTok :=
  (List.range 10).flatMap fun i => [.other i, .nl ⟨i + 1, false, false⟩]

example : pullGo 100 (init exDeep) = (expected [] exDeep, .eof) := by decide
example : (expected [] exDeep).length = 41 ∧
    (expected [] exDeep).drop 29 = [.indent 10, .dedent 10, .dedent 9, .dedent 8, .dedent 7, .dedent 6, .dedent 5,
      .dedent 4, .dedent 3, .dedent 2, .dedent 1, .eof] := by decide
/-- … and the capacities the queue has in the course of the calls are 0, 8, 16, 32 (two growths) -/
example : ((states 41 (init exDeep)).map fun s => Queue.cap s.pending).eraseDups = [0, 8, 16, 32] := by decide

/-- a base `EOF` in the middle of the list ends the stream; calls beyond the delivered `EOF` keep returning `EOF` -/
example : pull 10 (init [.other 1, .eof, .other 2]) = [.other 1, .eof] := by decide
example : ((states 5 (init [.nl ⟨2, false, false⟩])).map fun s =>
      match nextToken s with | .ok (t, _) => t | .panic => none)
    = [some (.nl ⟨2, false, false⟩), some (.indent 2), some (.dedent 2), some .eof, some .eof, some .eof] := by decide

end Ysgo.C20
