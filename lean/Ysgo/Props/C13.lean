import Ysgo.Lemmas.MarkupTail
import Ysgo.Lemmas.MarkupPropsSim
import Ysgo.Lemmas.MarkupRepl
import Ysgo.Lemmas.MarkupErr
import Ysgo.Props.C15
/-!
# C13 — markup parsing recovers the plain text and exactly the enclosed ranges

`MarkupSpec.expected` (Ysgo/Spec/MarkupSpec.lean) is the chunk-level specification; `none` = the parser has to report an
error. All theorems hold for every incoming parser state.

* C13.0 `parse_plain_text`, `parse_escaped_brackets`: PROVED.
* C13.1 `parse_render_core` (+ `parse_render_core_error`, `parse_render_core_full`, `parse_render_core_text`): PROVED, both
  sides (result and error), for lists of *core* chunks (`isCore`: text, escaped brackets, open / close / close-all /
  self-closing markers without properties, arbitrary Unicode white space in every slot of a marker, arbitrary identifiers
  as names, any nesting, overlap and repetition); `TextForAttribute` returns the enclosed text.
* C13.2 `parse_render_props_partial`: PROVED for the shorthand `[name=value]` and any number of properties whose values
  are integers, booleans, quoted strings or bare words, on the side where the specification prescribes a result.
  `parse_render_props` (second part of this file): PROVED with decimal values as well (`decimal_value`: the parser's
  `strconv.ParseFloat` on `<int>.<digits>` is the specification's nearest double); error side: `parse_render_props_error`.
* C13.3 `parse_render_replacement` (`nomarkup`, `select`, `plural`, `ordinal`, self-closing or closed by `[/name]` or
  `[/]`): PROVED for every well-formed chunk list (`MarkupSpec.wellFormed`), together with the arithmetic core
  (`ordinal_table`, `ordinal_table_go`, `placeholder_identity`, `placeholder_subst`, `processors_meet_spec`).
* `parse_render_error`, `parse_render_full`: on every well-formed chunk list the parser returns the prescribed result, or
  an error where the specification prescribes one — C13.1–C13.3 in one statement.
* C13.4 `character_prefix`: PROVED for lines without markers (`character_prefix`, `character_prefix_exact`); for lines with
  markers the implicit attribute is part of `expected`, hence of `parse_render_core` / `parse_render_props_partial` /
  `parse_render_full`.

Covered only by the executable comparison `expected` ⇄ model ⇄ implementation in the `markup` stream: lines that are not
renderings of well-formed chunk lists (a lone backslash or `[` inside marker text, raw text that contains a close tag of
its own marker, Unicode white space inside the close tag of a replacement marker, malformed markers), and — as for every
property — the agreement of the model with the Go code.
-/
namespace Ysgo.Markup
open Ysgo.Unicode Ysgo.MarkupSpec

/-- the initial states agree -/
theorem inv_init (input : List Char) : Inv {} input {} { rest := input, src := 0, pos := 0 } :=
  ⟨rfl, by simp, by simp, by simp [isSpace_nul], ⟨[], rfl, fun _ => rfl⟩⟩

/-- the common part of C13.1 and C13.2: if the main loop simulates every chunk of the list, parsing the rendered line yields
what the specification prescribes -/
theorem parse_render_of_sim (st : ParserState) (cs : List Chunk)
    (hsim : ∀ c ∈ cs, StepSim ((render cs).length + 1) c) (r : ParseResult) (he : expected cs = some r) :
    (parseRunes st (render cs)).2 = .ok r := by
  unfold expected at he
  simp only [bind, Option.bind] at he
  cases hfold : cs.foldlM stepChunk {} with
  | none => simp [hfold] at he
  | some S' =>
    simp only [hfold, pure, Option.some.injEq] at he
    obtain ⟨n, st', s', hinv, hn, hrun⟩ :=
      sim_fold_gen ((render cs).length + 1) cs {} S' {} { rest := render cs, src := 0, pos := 0 } hsim
        (by simp only []; omega) (inv_init _) hfold
    have hrun' := hrun ((render cs).length - n)
    have hfuel : (render cs).length - n + 1 + n = (render cs).length + 1 := by
      have : n ≤ (render cs).length := hn
      omega
    rw [hfuel] at hrun'
    obtain ⟨opensM, _, hb⟩ := hinv.build
    have hbuild : buildAttrs st'.markers [] [] = .ok S'.attrs := by
      have := hb []
      simpa [buildAttrs] using this
    unfold parseRunes parseCore
    simp only [bind, P.bind, hrun', finish, hbuild, addCharacter_eq, pure, P.pure]
    rw [← he]
    simp only [sortStable_eq, specCharacter, hinv.out, trimSpace_eq, trimLeftLen]
    rfl

/-- C13.1 `parse_render_core`: for every list of core chunks for which the specification prescribes a result (i.e. every
close marker has an open marker to close) parsing the rendered line yields exactly that result — text, attribute names,
positions, lengths, source positions, order — from every incoming parser state -/
theorem parse_render_core (st : ParserState) (cs : List Chunk) (hc : ∀ c ∈ cs, isCore c = true) (r : ParseResult)
    (he : expected cs = some r) : (parseRunes st (render cs)).2 = .ok r :=
  parse_render_of_sim st cs (fun c h => stepSim_core _ c (hc c h)) r he

/-- C13.2 `parse_render_props` (partial: every value kind except decimals; only the side on which the specification
prescribes a result): additionally open and self-closing markers may carry the shorthand `[name=value]` and any number
of properties whose values are integers (with leading zeros), `true` / `false` in any letter case, quoted strings with
`\\"` and `\\\\` escapes, or bare words, with arbitrary Unicode white space in every slot; the attributes carry the
typed values, a later property of the same name replacing an earlier one, and `trimwhitespace=<bool>` overrides the
white space rule.
MISSING for the full statement: decimal values (`parseFloat` = nearest double needs lemmas about `F64.roundQuot`) and
the error side (integer beyond `int`, non-boolean `trimwhitespace`); both are covered by the `markup` stream. -/
theorem parse_render_props_partial (st : ParserState) (cs : List Chunk) (hc : ∀ c ∈ cs, isPropsChunk c = true)
    (r : ParseResult) (he : expected cs = some r) : (parseRunes st (render cs)).2 = .ok r :=
  parse_render_of_sim st cs (fun c h => stepSim_props _ c (hc c h)) r he

/-- and `TextForAttribute` returns the enclosed text -/
theorem parse_render_props_text (st : ParserState) (cs : List Chunk) (hc : ∀ c ∈ cs, isPropsChunk c = true)
    (r : ParseResult) (he : expected cs = some r) : ∀ a ∈ r.attrs, textForAttribute r a = .ok (enclosed r a) := by
  intro a ha
  have h := parse_render_props_partial st cs hc r he
  have hp : parseRunes st (render cs) = ((parseRunes st (render cs)).1, .ok r) := by rw [← h]
  exact textForAttribute_of_range r a (attributes_in_range st _ (render cs) r hp a ha)

/-- C13.1, error side: when the specification prescribes an error (a close marker has nothing to close) the parser reports
an error — it neither panics nor returns a result -/
theorem parse_render_core_error (st : ParserState) (cs : List Chunk) (hc : ∀ c ∈ cs, isCore c = true)
    (he : expected cs = none) : (parseRunes st (render cs)).2 = .err := by
  have hfold : cs.foldlM stepChunk {} = none := by
    cases hf : cs.foldlM stepChunk {} with
    | none => rfl
    | some S' => simp [expected, hf, bind, Option.bind, pure] at he
  have hbad := sim_fold_none (render cs).length cs {} {} { rest := render cs, src := 0, pos := 0 } hc (inv_init _) hfold
    (by simp only []; omega) ((render cs).length + 1) (by simp only []; omega)
  unfold parseRunes parseCore
  simp only [bind, P.bind]
  cases hml : mainLoop ((render cs).length + 1) ((render cs).length + 1) {} { rest := render cs, src := 0, pos := 0 } with
  | ok st' s' =>
    simp only [hml, BadEnd] at hbad
    simp only [finish, hbad, fail]
  | err _ => rfl
  | panic _ => simp only [hml, BadEnd] at hbad
  | oof _ => simp only [hml, BadEnd] at hbad

/-- C13.1 in one statement: on every list of core chunks the parser does what the specification prescribes -/
theorem parse_render_core_full (st : ParserState) (cs : List Chunk) (hc : ∀ c ∈ cs, isCore c = true) :
    (parseRunes st (render cs)).2 = (match expected cs with | some r => .ok r | none => .err) := by
  cases he : expected cs with
  | some r => exact parse_render_core st cs hc r he
  | none => exact parse_render_core_error st cs hc he

/-- C13.1, second half: `TextForAttribute` returns the text the attribute encloses -/
theorem parse_render_core_text (st : ParserState) (cs : List Chunk) (hc : ∀ c ∈ cs, isCore c = true) (r : ParseResult)
    (he : expected cs = some r) : ∀ a ∈ r.attrs, textForAttribute r a = .ok (enclosed r a) := by
  intro a ha
  have h := parse_render_core st cs hc r he
  have hp : parseRunes st (render cs) = ((parseRunes st (render cs)).1, .ok r) := by rw [← h]
  exact textForAttribute_of_range r a (attributes_in_range st _ (render cs) r hp a ha)

/-! ## C13.0 — lines without markers -/

/-- what the specification prescribes for a line without markers: the trimmed line and at most the implicit `character`
attribute (`specCharacter line []` is empty when the line has no `:`) -/
def plainResult (line : List Char) : ParseResult :=
  { text := String.ofList (trimEnds line),
    attrs := (specCharacter line []).map (clip (line.takeWhile isSpace).length (trimEnds line).length) }

/-- the specification on a single text chunk is `plainResult` -/
theorem expected_text (line : List Char) : expected [.text line] = some (plainResult line) := by
  cases line with
  | nil => simp [expected, stepChunk, plainResult, sortByPosition, specCharacter, render, renderChunk, characterPrefix]
  | cons c cs =>
    simp [expected, stepChunk, plainResult, sortByPosition, specCharacter, render, renderChunk]
    cases characterPrefix (c :: cs) with
    | none => simp
    | some p => simp

/-- C13.0 `parse_plain_text`: a line of any characters and any length in which no `[` occurs and no `\` stands directly
before a `]` is returned trimmed, with no attribute other than the implicit `character` one — from every incoming parser
state -/
theorem parse_plain_text (st : ParserState) (line : List Char) (h : PlainChars line []) :
    (parseRunes st line).2 = .ok (plainResult line) := by
  have hrun := mainLoop_plain (1 + line.length) line [] h 1 {} 0 0
  simp only [List.append_nil] at hrun
  unfold parseRunes parseCore
  simp only [bind, P.bind]
  rw [show line.length + 1 = 1 + line.length by omega, hrun]
  simp only [mainLoop, bind, P.bind, readRune, pure, P.pure, finish, buildAttrs, addCharacter_eq, sortStable,
    List.foldl_nil, List.nil_append, trimSpace_eq, trimLeftLen]
  rfl

/-- a line without `:` has no attribute at all -/
theorem parse_plain_text_no_colon (st : ParserState) (line : List Char) (h : PlainChars line []) (hc : ':' ∉ line) :
    (parseRunes st line).2 = .ok { text := String.ofList (trimEnds line), attrs := [] } := by
  rw [parse_plain_text st line h]
  have : characterPrefix line = none := by
    induction line with
    | nil => simp [characterPrefix]
    | cons c cs ih =>
      have hne : c ≠ ':' := fun e => hc (by simp [e])
      rw [characterPrefix_cons c cs hne, ih h.2.2 (fun e => hc (List.mem_cons_of_mem _ e))]
      rfl
  simp [plainResult, specCharacter, this]

/-- the text of a list of text chunks and escaped brackets -/
def unescaped : List Chunk → List Char
  | [] => []
  | .text s :: cs => s ++ unescaped cs
  | .escOpen :: cs => '[' :: unescaped cs
  | .escClose :: cs => ']' :: unescaped cs
  | _ :: cs => unescaped cs

def isTextOrEsc : Chunk → Bool
  | .text s => s.all fun c => c ≠ '[' && c ≠ '\\'
  | .escOpen | .escClose => true
  | _ => false

theorem fold_textOrEsc : ∀ (cs : List Chunk) (S : St), (∀ c ∈ cs, isTextOrEsc c = true) → S.trimNext = false →
    ∃ S', cs.foldlM stepChunk S = some S' ∧ S'.out = S.out ++ unescaped cs ∧ S'.attrs = S.attrs := by
  intro cs
  induction cs with
  | nil => intro S _ _; exact ⟨S, rfl, by simp [unescaped], rfl⟩
  | cons c cs ih =>
    intro S hall ht
    have hc := hall c List.mem_cons_self
    have hrest : ∀ d ∈ cs, isTextOrEsc d = true := fun d hd => hall d (List.mem_cons_of_mem _ hd)
    -- one step: some state with the text appended, no attribute, nothing to trim
    have hstep : ∃ S1, stepChunk S c = some S1 ∧ S1.out = S.out ++ unescaped [c] ∧ S1.attrs = S.attrs ∧
        S1.trimNext = false := by
      cases c with
      | text t =>
        cases t with
        | nil => exact ⟨S, rfl, by simp [unescaped], rfl, ht⟩
        | cons x xs => exact ⟨_, rfl, by simp [unescaped, ht], rfl, rfl⟩
      | escOpen => exact ⟨_, rfl, by simp [unescaped], rfl, rfl⟩
      | escClose => exact ⟨_, rfl, by simp [unescaped], rfl, rfl⟩
      | opn _ _ _ _ => simp [isTextOrEsc] at hc
      | selfClose _ _ _ _ => simp [isTextOrEsc] at hc
      | close _ _ => simp [isTextOrEsc] at hc
      | closeAll _ => simp [isTextOrEsc] at hc
      | repl _ _ _ _ _ _ _ => simp [isTextOrEsc] at hc
    obtain ⟨S1, h1, ho1, ha1, ht1⟩ := hstep
    obtain ⟨S', h2, ho2, ha2⟩ := ih S1 hrest ht1
    refine ⟨S', by simp [List.foldlM_cons, h1, h2], ?_, by rw [ha2, ha1]⟩
    rw [ho2, ho1]
    cases c <;> simp_all [unescaped, isTextOrEsc]

/-- C13.0 `parse_escaped_brackets`: a line made of text chunks and escaped brackets `\\[` `\\]` yields the text with the
escapes resolved, trimmed, and no attribute other than the implicit `character` one -/
theorem parse_escaped_brackets (st : ParserState) (cs : List Chunk) (h : ∀ c ∈ cs, isTextOrEsc c = true) :
    (parseRunes st (render cs)).2 = .ok
      { text := String.ofList (trimEnds (unescaped cs)),
        attrs := (specCharacter (render cs) []).map
          (clip ((unescaped cs).takeWhile isSpace).length (trimEnds (unescaped cs)).length) } := by
  have hcore : ∀ c ∈ cs, isCore c = true := by
    intro c hc
    have := h c hc
    cases c <;> simp_all [isTextOrEsc, isCore, chunkOk]
  obtain ⟨S', hfold, hout, hattrs⟩ := fold_textOrEsc cs {} h rfl
  apply parse_render_core st cs hcore
  have ho : S'.out = unescaped cs := by simpa using hout
  have ha : S'.attrs = [] := by simpa using hattrs
  simp only [expected, hfold, bind, Option.bind, pure, ho, ha, sortByPosition, List.foldl_nil, specCharacter,
    List.any_nil, Bool.false_eq_true, if_false, List.nil_append]
  cases characterPrefix (render cs) with
  | none => rfl
  | some p => rfl

/-! ## C13.4 — the implicit character attribute -/

theorem takeWhile_perl (spaces rest : List Char) (hs : ∀ c ∈ spaces, isPerlSpace c = true)
    (hr : ∀ c, rest.head? = some c → isPerlSpace c = false) : (spaces ++ rest).takeWhile isPerlSpace = spaces := by
  induction spaces with
  | nil =>
    cases rest with
    | nil => rfl
    | cons d ds => simp [hr d rfl]
  | cons c cs ih =>
    simp only [List.cons_append, List.takeWhile_cons, hs c List.mem_cons_self, if_true]
    rw [ih (fun d hd => hs d (List.mem_cons_of_mem _ hd))]

/-- in `name: rest` the prefix is `name`, the `:` and the ASCII white space after it, counted in characters -/
theorem characterPrefix_split (name spaces rest : List Char) (hn : ':' ∉ name)
    (hs : ∀ c ∈ spaces, isPerlSpace c = true) (hr : ∀ c, rest.head? = some c → isPerlSpace c = false) :
    characterPrefix (name ++ ':' :: (spaces ++ rest)) = some (name, name.length + 1 + spaces.length) := by
  induction name with
  | nil => simp [characterPrefix_colon, takeWhile_perl spaces rest hs hr]
  | cons c cs ih =>
    have hc : c ≠ ':' := fun h => hn (by simp [h])
    rw [List.cons_append, characterPrefix_cons c _ hc, ih (fun h => hn (List.mem_cons_of_mem _ h))]
    simp; omega

/-- the attribute the prefix `name: ` stands for, before clipping to the trimmed text -/
def characterAttr (name : List Char) (len : Nat) : Attr :=
  { name := "character", position := 0, length := len, sourcePosition := 0, props := [("name", .str (String.ofList name))] }

/-- C13.4 `character_prefix` (lines without markers): `name ++ ":" ++ spaces ++ rest`, no `:` in `name`, yields exactly one
attribute: `character`, with property `name = name`, covering `name ++ ":" ++ spaces` — its length is the number of
*characters* (multi-byte names included) — clipped to the trimmed text like every attribute -/
theorem character_prefix (st : ParserState) (name spaces rest : List Char) (hn : ':' ∉ name)
    (hs : ∀ c ∈ spaces, isPerlSpace c = true) (hr : ∀ c, rest.head? = some c → isPerlSpace c = false)
    (hp : PlainChars (name ++ ':' :: (spaces ++ rest)) []) :
    (parseRunes st (name ++ ':' :: (spaces ++ rest))).2 = .ok
      { text := String.ofList (trimEnds (name ++ ':' :: (spaces ++ rest))),
        attrs := [clip ((name ++ ':' :: (spaces ++ rest)).takeWhile isSpace).length
                    (trimEnds (name ++ ':' :: (spaces ++ rest))).length
                    (characterAttr name (name.length + 1 + spaces.length))] } := by
  rw [parse_plain_text st _ hp]
  simp [plainResult, specCharacter, characterPrefix_split name spaces rest hn hs hr, characterAttr]

/-- when the line does not start with white space and the prefix survives the final trim, clipping changes nothing:
position 0 and length = character count of `name ++ ":" ++ spaces` -/
theorem character_prefix_exact (name : List Char) (len n : Nat) (h : len ≤ n) :
    clip 0 n (characterAttr name len) = characterAttr name len := by
  simp only [clip, characterAttr, Attr.mk.injEq, true_and, and_true]
  omega

/-! ## Non-vacuity

A core chunk list with multi-byte text before a marker, overlapping markers `[ b ]…[i]…[/ b]…[/i]`, white space inside
markers, a self-closing marker preceded by white space (which drops the following blank) and an escaped bracket: it is
core, the specification prescribes a result with three attributes, so `parse_render_core` applies to the line
`é [ b ]名x[i]y[/ b]z [s/⇥] w[/i]\\[q]` and yields text `é 名xyz w[q]` with `b@2+3`, `i@4+4`, `s@7+0`. -/

def exampleChunks : List Chunk :=
  [.text "é ".toList, .opn "b".toList none [] [" ".toList, " ".toList], .text "名x".toList, .opn "i".toList none [] [],
   .text "y".toList, .close "b".toList [[], " ".toList], .text "z ".toList,
   .selfClose "s".toList none [] [[], [], "\t".toList], .text " w".toList, .close "i".toList [], .escOpen,
   .text "q]".toList]

example : ∀ c ∈ exampleChunks, isCore c = true := by decide +kernel
example : (expected exampleChunks).map (fun r => r.attrs.map (fun a => (a.position, a.length))) =
    some [(2, 3), (4, 4), (7, 0)] := by decide +kernel
/-- the error side is inhabited too -/
example : expected [.text "a".toList, .close "b".toList []] = none := by decide +kernel
/-- a plain line with backslashes that are not escapes, a `]`, a colon and multi-byte characters -/
example : PlainChars "Zoé: a\\b ] \\".toList [] := by simp [PlainChars]
example : ∀ c ∈ [Chunk.text " a ".toList, .escOpen, .text "é".toList, .escClose], isTextOrEsc c = true := by decide

/-- a list with a shorthand value, every supported value kind, a repeated property name and `trimwhitespace`: the line
`a [ b=⇥07 k="q\\"x" t=TRUE w=名 k=12]é[/b][s trimwhitespace=false/] z` -/
def exampleProps : List Chunk :=
  [.text "a ".toList,
   .opn "b".toList (some (.int 1 7)) [("k".toList, .quoted "q\"x".toList), ("t".toList, .bool true "TRUE".toList),
     ("w".toList, .bare "名".toList), ("k".toList, .int 0 12)] [" ".toList, [], "\t".toList],
   .text "é".toList, .close "b".toList [],
   .selfClose "s".toList none [("trimwhitespace".toList, .bool false "false".toList)] [], .text " z".toList]

example : ∀ c ∈ exampleProps, isPropsChunk c = true := by decide +kernel
example : (expected exampleProps).map (fun r => showAttrs r.attrs) =
    some "b@2+1@2{b=i:7,k=i:12,t=b:true,w=s:\\u{540d}};s@3+0@40{trimwhitespace=b:false}" := by decide +kernel

#print axioms parse_plain_text
#print axioms parse_escaped_brackets
#print axioms character_prefix
#print axioms parse_render_core
#print axioms parse_render_props_partial
#print axioms parse_render_core_error
#print axioms parse_render_core_text

/-! ## C13.2 (all value kinds) and C13.3 (replacement markers): every well-formed chunk list

`wellFormed cs` (`MarkupSpec.chunkOk` on every chunk) is the whole grammar the property quantifies over: text, escaped
brackets, open / close / close-all / self-closing markers with the shorthand value and any number of properties of every
value kind — integers, **decimals**, booleans, quoted strings, bare words — and the replacement markers `nomarkup`,
`select`, `plural`, `ordinal`, self-closing (`.selfClose` with such a name) or open with raw text (any characters, as long
as no close tag of the marker occurs in it: `noCloseTag`) closed by `[/name]` or `[/]` (`.repl`). -/

/-- C13.3 `parse_render_replacement` (and C13.2 with decimals): for **every well-formed chunk list** for which the
specification prescribes a result, parsing the rendered line yields exactly that result — the text with every replacement
marker replaced by what its definition prescribes (`MarkupSpec.replacement`: `nomarkup` ↦ its raw text verbatim, `select`
↦ the case named by `value`, `plural` ↦ `one` / `other`, `ordinal` ↦ the case of the English ordinal table, `%` ↦ the
value, `\\%` ↦ `%`), the attributes with typed property values (a decimal `i.ds` is the double nearest to it), positions,
lengths and source positions (raw text uncounted) — from every incoming parser state -/
theorem parse_render_replacement (st : ParserState) (cs : List Chunk) (hw : wellFormed cs = true) (r : ParseResult)
    (he : expected cs = some r) : (parseRunes st (render cs)).2 = .ok r := by
  simp only [wellFormed, List.all_eq_true] at hw
  exact parse_render_of_sim st cs (fun c h => stepSim_all _ c (hw c h)) r he

/-- and `TextForAttribute` returns the enclosed text — for a replacement marker closed by name or by `[/]` that is the
replacement text -/
theorem parse_render_replacement_text (st : ParserState) (cs : List Chunk) (hw : wellFormed cs = true)
    (r : ParseResult) (he : expected cs = some r) : ∀ a ∈ r.attrs, textForAttribute r a = .ok (enclosed r a) := by
  intro a ha
  have h := parse_render_replacement st cs hw r he
  have hp : parseRunes st (render cs) = ((parseRunes st (render cs)).1, .ok r) := by rw [← h]
  exact textForAttribute_of_range r a (attributes_in_range st _ (render cs) r hp a ha)

/-- C13.2 `parse_render_props` at full strength on the result side: the chunk kinds of `parse_render_props_partial` with
decimal values allowed as well (`isPropsChunk` minus its `notDec` clauses is `chunkOk` on lists without replacement
markers; such lists are a special case of `parse_render_replacement`) -/
theorem parse_render_props (st : ParserState) (cs : List Chunk) (hw : wellFormed cs = true)
    (hnr : ∀ c ∈ cs, match c with
      | .selfClose n _ _ _ => isReplName n = false | .close n _ => isReplName n = false
      | .repl _ _ _ _ _ _ _ => False | _ => True)
    (r : ParseResult) (he : expected cs = some r) : (parseRunes st (render cs)).2 = .ok r :=
  parse_render_replacement st cs hw r he

/-- the link behind decimal values, stated on its own: on `<int>.<digits>` as the parser assembles it from the parsed
integer `n < 2^63` and the fraction digits as written, `strconv.ParseFloat` returns the specification's
`nearest n frac` = the correctly rounded quotient `(n·10^k + frac) / 10^k` (`F64.roundQuot`; `F64.roundQuot_total` of the
F64 library says it is a faithful rounding) — `[a=1.05]` is 1.05, not 1.5 -/
theorem decimal_value (n : Nat) (frac : List Char) (hn : n < 2 ^ 63) (hf : ∀ c ∈ frac, isAsciiDigit c = true)
    (hne : frac ≠ []) :
    F64.parseFloat (F64.itoa (n : Int) ++ "." ++ String.ofList frac) = .val (nearest n frac) :=
  parseFloat_dec n frac (by rw [← P63_eq]; exact hn) hf hne

/-! ### Non-vacuity for C13.2 / C13.3

`I have [plural value=3 one="% apple" other="% apples"/], she is [ordinal value=22 one="%st" two="%nd" few="%rd"
other="%th" /], [select value=f m="he" f="she"/] said [nomarkup]a [b]c[/b] \[ [/ x][/nomarkup]![a=1.05]x[/a]
[plural value=1 one="one 100\% %"]ignored[/]` — replacement markers of every kind, self-closing, closed by name and by
`[/]`, raw text that contains markers and a backslash, the `\%` escape, a decimal shorthand value. -/

def exampleRepl : List Chunk :=
  [.text "I have ".toList,
   .selfClose "plural".toList none [("value".toList, .int 0 3), ("one".toList, .quoted "% apple".toList),
     ("other".toList, .quoted "% apples".toList)] [],
   .text ", she is ".toList,
   .selfClose "ordinal".toList none [("value".toList, .int 0 22), ("one".toList, .quoted "%st".toList),
     ("two".toList, .quoted "%nd".toList), ("few".toList, .quoted "%rd".toList), ("other".toList, .quoted "%th".toList)]
     [[], [], [], [], [], [], [], [], [], [], [], [], [], [], [], [], " ".toList],
   .text ", ".toList,
   .selfClose "select".toList none [("value".toList, .bare "f".toList), ("m".toList, .quoted "he".toList),
     ("f".toList, .quoted "she".toList)] [],
   .text " said ".toList,
   .repl "nomarkup".toList none [] [] "a [b]c[/b] \\[ [/ x]".toList true [],
   .text "!".toList,
   .opn "a".toList (some (.dec 0 1 "05".toList)) [] [], .text "x".toList, .close "a".toList [],
   .text " ".toList,
   .repl "plural".toList none [("value".toList, .int 0 1), ("one".toList, .quoted "one 100\\% %".toList)] []
     "ignored".toList false []]

example : wellFormed exampleRepl = true := by decide +kernel
example : (expected exampleRepl).map (fun r => r.text) =
    some "I have 3 apples, she is 22nd, she said a [b]c[/b] \\[ [/ x]!x one 100% 1" := by decide +kernel
example : (expected exampleRepl).map (fun r => showAttrs (r.attrs.filter (fun a => a.name == "a" || a.name == "nomarkup"))) =
    some "nomarkup@39+19@166{};a@59+1@188{a=f:N:4607407598781385933}" := by decide +kernel
/-- the error side of the specification is inhabited by replacement markers too: no case for the value -/
example : expected [.selfClose "select".toList none [("value".toList, .bare "x".toList), ("y".toList, .int 0 1)] []] = none := by
  decide +kernel

/-! ## The error side on every well-formed chunk list -/

/-- `parse_render_error` (C13.1–C13.3, error side): when the specification prescribes an error for a well-formed chunk
list — a close marker with nothing to close, an integer (part) beyond `int`, a non-boolean `trimwhitespace` where it
counts, a replacement marker without `value`, without a case for its value, or with a `value` of the wrong type — the
parser reports an error: it neither panics nor returns a result -/
theorem parse_render_error (st : ParserState) (cs : List Chunk) (hw : wellFormed cs = true)
    (he : expected cs = none) : (parseRunes st (render cs)).2 = .err := by
  simp only [wellFormed, List.all_eq_true] at hw
  have hfold : cs.foldlM stepChunk {} = none := by
    cases hf : cs.foldlM stepChunk {} with
    | none => rfl
    | some S' => simp [expected, hf, bind, Option.bind, pure] at he
  have hbad := sim_fold_none_all (render cs).length cs {} {} { rest := render cs, src := 0, pos := 0 } hw (inv_init _) hfold
    (by simp only []; omega) ((render cs).length + 1) (by simp only []; omega)
  unfold parseRunes parseCore
  simp only [bind, P.bind]
  cases hml : mainLoop ((render cs).length + 1) ((render cs).length + 1) {} { rest := render cs, src := 0, pos := 0 } with
  | ok st' s' =>
    simp only [hml, BadEnd] at hbad
    simp only [finish, hbad, fail]
  | err _ => rfl
  | panic _ => simp only [hml, BadEnd] at hbad
  | oof _ => simp only [hml, BadEnd] at hbad

/-- `parse_render_props_error`: the error side of C13.2 — a special case of `parse_render_error` -/
theorem parse_render_props_error (st : ParserState) (cs : List Chunk) (hc : ∀ c ∈ cs, isPropsChunk c = true)
    (he : expected cs = none) : (parseRunes st (render cs)).2 = .err := by
  apply parse_render_error st cs _ he
  simp only [wellFormed, List.all_eq_true]
  intro c h
  have := hc c h
  unfold isPropsChunk at this
  simp only [Bool.and_eq_true] at this
  exact this.1

/-- **C13 in one statement**: on every well-formed chunk list — the whole grammar of the property: text, escapes, markers
with properties of every value kind, nesting, overlap, repetition, close-all, replacement markers self-closing or closed
by name or by `[/]` — and from every incoming parser state, the parser does exactly what the specification prescribes:
the prescribed result, or an error where an error is prescribed -/
theorem parse_render_full (st : ParserState) (cs : List Chunk) (hw : wellFormed cs = true) :
    (parseRunes st (render cs)).2 = (match expected cs with | some r => .ok r | none => .err) := by
  cases he : expected cs with
  | some r => exact parse_render_replacement st cs hw r he
  | none => exact parse_render_error st cs hw he

/-- error cases of every kind are well-formed lists the specification rejects -/
def exampleErrors : List (List Chunk) :=
  [ [.opn "a".toList (some (.int 0 (2 ^ 63))) [] [], .text "x".toList],                       -- integer beyond int
    [.selfClose "a".toList none [("k".toList, .dec 2 (2 ^ 63 + 5) "5".toList)] []],            -- integer part beyond int
    [.selfClose "a".toList none [("trimwhitespace".toList, .int 0 1)] []],                     -- not a boolean, at line start
    [.selfClose "plural".toList none [("value".toList, .quoted "x".toList), ("other".toList, .bare "o".toList)] []],
    [.selfClose "ordinal".toList none [("value".toList, .int 0 2), ("one".toList, .bare "o".toList)] []],  -- no case `two`
    [.repl "select".toList none [] [] "raw".toList true []],                                   -- no value
    [.text "x".toList, .close "nomarkup".toList []] ]                                          -- nothing to close

example : ∀ cs ∈ exampleErrors, wellFormed cs = true ∧ expected cs = none := by decide +kernel

/-! ## C13.3, arithmetic core: the case tables and the placeholder rule of processors.go -/

/-- `ordinal_table`: the model of `processOrdinal`'s `switch` is the English ordinal table on the numbers the parser can
deliver (`parseInteger` yields a natural number): last digit 1 / 2 / 3 gives `one` / `two` / `few` unless the number ends
in 11 / 12 / 13; everything else is `other` -/
theorem ordinal_table (n : Nat) :
    ordinalCase (n : Int) =
      if n % 10 = 1 ∧ n % 100 ≠ 11 then "one" else if n % 10 = 2 ∧ n % 100 ≠ 12 then "two"
      else if n % 10 = 3 ∧ n % 100 ≠ 13 then "few" else "other" := ordinalCase_nat n

/-- the same with Go's `%` (truncated remainder), literally the conditions of processors.go:94-100 -/
theorem ordinal_table_go (n : Nat) :
    ordinalCase (n : Int) =
      if (n : Int).tmod 10 = 1 ∧ (n : Int).tmod 100 ≠ 11 then "one"
      else if (n : Int).tmod 10 = 2 ∧ (n : Int).tmod 100 ≠ 12 then "two"
      else if (n : Int).tmod 10 = 3 ∧ (n : Int).tmod 100 ≠ 13 then "few" else "other" := ordinalCase_go n

example : [1, 2, 3, 4, 10, 11, 12, 13, 21, 22, 23, 101, 111, 112, 113, 122].map (fun n : Nat => ordinalCase (n : Int)) =
    ["one", "two", "few", "other", "other", "other", "other", "other", "one", "two", "few", "one", "other", "other",
     "other", "two"] := by decide

/-- `placeholder_identity`: a replacement text without `%` is returned unchanged -/
theorem placeholder_identity (r v : String) (h : '%' ∉ r.toList) : replacePlaceholders r v = r :=
  replacePlaceholders_no_percent r v h

/-- `placeholder_subst`: with no backslash in the replacement text and in the value, every `%` becomes the value and
nothing else changes -/
theorem placeholder_subst (r v : String) (hr : '\\' ∉ r.toList) (hv : '\\' ∉ v.toList) :
    replacePlaceholders r v = String.ofList (r.toList.flatMap fun c => if c = '%' then v.toList else [c]) :=
  replacePlaceholders_subst r v hr hv

example : '%' ∉ "no placeholder".toList := by decide
example : '\\' ∉ "% of %".toList ∧ '\\' ∉ "7".toList := by decide
example : replacePlaceholders "% of %" "7" = "7 of 7" := by decide +kernel
/-- and `\\%` is a literal `%` -/
example : replacePlaceholders "100\\% of %" "7" = "100% of 7" := by decide +kernel

/-- `processors_meet_spec`: on every property list the model of the four processors returns the text (or the error)
`MarkupSpec.replacement` prescribes; `c` is the raw text of an open replacement marker -/
theorem processors_meet_spec (n : List Char) (hn : isReplName n = true) (ps : List (String × PVal))
    (c : Option (List Char)) :
    process (String.ofList n) (ps ++ contentsProp c) = (replacement n ps c).map String.ofList := process_eq n hn ps c

example : isReplName "ordinal".toList = true := by decide
/-- the decimal of `[a=1.05]` is 1.05 (bits 0x3FF0CCCCCCCCCCCD), the value F17 got wrong -/
example : nearest 1 "05".toList = ⟨4607407598781385933⟩ := by decide +kernel

#print axioms parse_render_replacement
#print axioms parse_render_error
#print axioms parse_render_props_error
#print axioms parse_render_full
#print axioms parse_render_replacement_text
#print axioms parse_render_props
#print axioms decimal_value
#print axioms ordinal_table
#print axioms ordinal_table_go
#print axioms placeholder_identity
#print axioms placeholder_subst
#print axioms processors_meet_spec

end Ysgo.Markup
