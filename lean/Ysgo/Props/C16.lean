import Ysgo.Lemmas.Bridge
/-!
# C16 — converted host functions / commands: accepted means callable without panics

Over the model `Ysgo.Bridge` of function_storer.go / command_storer.go (as repaired). `registerFunction` /
`registerCommand` take a `HostValue`: `nilIface` (a nil `any`), `notFunc t`, `fn s` (a function of signature `s`), and
`nilFn s` — a nil function VALUE of a function type, which is refused like the other non-callable values (`nilFn_refused`;
before the repair of finding F29 it passed the gates, only the type being inspected, and every call panicked in
`reflect.Value.Call`). The theorems about accepted bridges are about `fn s`, the only accepted constructor.
-/
namespace Ysgo.C16
open Ysgo Ysgo.Bridge

/-! ### 1. accepted_never_panics -/

/-- **C16.1 (functions)**: an accepted function can be called with ANY argument list — any number, any types — and the
bridge answers with a value, nothing or an error, never with a panic: the converter chosen for a parameter yields a value
whose type is identical to the parameter type, which is what `reflect.Value.Call` demands. (`HostRespects`: the host
function returns values of its declared result types — Go's type system; it is not needed for the two panic sites of
the bridge itself, see `accepted_never_panics_bridge_sites`.) -/
theorem accepted_never_panics (s : Sig) (b : FnBridge) (h : registerFunction (.fn s) = .ok b)
    (host : Host) (hh : HostRespects s host) (args : List Value) (p : PanicSite) :
    (invokeFn b host args).out ≠ .panic p := by
  obtain ⟨hc, _, rfl⟩ := (registerFunction_fn s b).mp h
  unfold invokeFn
  cases hci : convertInputs s args with
  | error k => simp
  | ok ins =>
    simp only [reflectCall_converted s host hh args ins hci]
    have hlen := fitsAll_length _ _ (hh ins)
    -- the result shape decided at registration fits the number of results
    match hr : s.results, hout : host ins with
    | [], _ => simp [fnRetOf, fnResult]
    | [t], [q] =>
      simp only [fnRetOf, List.zipWith_cons_cons, List.zipWith_nil_right]
      cases (valueKind? t).isSome
      · simp only [Bool.false_eq_true, ↓reduceIte, fnResult]; split <;> simp
      · simp only [↓reduceIte, fnResult]; split <;> simp
    | [t, e], [q, q'] =>
      simp only [fnRetOf, List.zipWith_cons_cons, List.zipWith_nil_right, fnResult]
      split
      · simp
      · split <;> simp
    | [_], [] => simp [hr, hout] at hlen
    | [_], _ :: _ :: _ => simp [hr, hout] at hlen
    | [_, _], [] => simp [hr, hout] at hlen
    | [_, _], [_] => simp [hr, hout] at hlen
    | [_, _], _ :: _ :: _ :: _ => simp [hr, hout] at hlen
    | _ :: _ :: _ :: _, _ => rw [hr] at hc; simp [checkFunctionOutputs] at hc

/-- **C16.1 (commands)**: the same for an accepted command — its wrapper never panics. -/
theorem accepted_never_panics_cmd (s : Sig) (b : CmdBridge) (h : registerCommand (.fn s) = .ok b)
    (host : Host) (hh : HostRespects s host) (args : List Value) :
    (invokeCmd b host args).out ≠ .panicked := by
  obtain ⟨hc, _, rfl⟩ := (registerCommand_fn s b).mp h
  unfold invokeCmd
  cases hci : convertInputs s args with
  | error k => simp
  | ok ins =>
    simp only [reflectCall_converted s host hh args ins hci]
    have hfit := hh ins
    have hlen := fitsAll_length _ _ hfit
    match hr : s.results, hout : host ins with
    | [], _ => simp [cmdRetOf, cmdResult]
    | [t], [q] =>
      rw [hr, hout] at hfit
      simp only [cmdRetOf, List.zipWith_cons_cons, List.zipWith_nil_right]
      cases hce : convertibleToError t
      · -- a channel result: the payload of a channel type is a channel
        have hch : isErrChan t = true := by
          rw [hr] at hc
          simpa [checkCommandOutputs, hce] using hc
        cases t with
        | chanErr d n e =>
          cases q with
          | chan st => cases st <;> simp [cmdResult] <;> split <;> simp
          | _ => simp [fitsAll, fits] at hfit
        | _ => simp [isErrChan] at hch
      · simp only [↓reduceIte, cmdResult]; split <;> simp
    | [_], [] => simp [hr, hout] at hlen
    | [_], _ :: _ :: _ => simp [hr, hout] at hlen
    | _ :: _ :: _, _ => rw [hr] at hc; simp [checkCommandOutputs] at hc

/-- **C16.1, without any assumption on the host**: the panic sites of the bridge itself — `reflect.Value.Call` rejecting
an argument, a nil function, an index into the results — are unreachable; only a host that breaks its own signature
(impossible for a statically typed Go function) can make the call panic. -/
theorem accepted_never_panics_bridge_sites (s : Sig) (b : FnBridge) (h : registerFunction (.fn s) = .ok b)
    (host : Host) (args : List Value) :
    (invokeFn b host args).out ≠ .panic .reflectCall ∧ (invokeFn b host args).out ≠ .panic .nilDeref := by
  obtain ⟨_, _, rfl⟩ := (registerFunction_fn s b).mp h
  unfold invokeFn
  cases hci : convertInputs s args with
  | error k => simp
  | ok ins =>
    rcases reflectCall_converted_weak s host args ins hci with hr | hr
    · simp only [hr]
      constructor <;>
      · unfold fnResult
        split <;> (try split) <;> (try split) <;> simp
    · simp [hr]

/-! ### 2. faithful_arguments -/

/-- **C16.2 (functions)**: when count and types of the arguments match the signature, the host function runs exactly
once on `zipWith conv params args` followed by the converted variadic tail — every number converted to the declared
numeric kind (`conv`: Go's float64→K conversion on amd64), booleans and strings unchanged, every value of the DECLARED
(possibly named) type — and the script sees the converted result of that run. -/
theorem faithful_arguments (s : Sig) (b : FnBridge) (h : registerFunction (.fn s) = .ok b)
    (host : Host) (hh : HostRespects s host) (args : List Value) (hm : argsMatch s args = true) :
    (invokeFn b host args).received = some (expectedInputs s args) ∧
    (invokeFn b host args).out =
      fnResult (fnRetOf s.results) (List.zipWith GoVal.mk s.results (host (expectedInputs s args))) := by
  obtain ⟨_, _, rfl⟩ := (registerFunction_fn s b).mp h
  have hci := convertInputs_of_match s args hm
  simp [invokeFn, hci, reflectCall_converted s host hh args _ hci]

/-- **C16.2 (commands)** -/
theorem faithful_arguments_cmd (s : Sig) (b : CmdBridge) (h : registerCommand (.fn s) = .ok b)
    (host : Host) (hh : HostRespects s host) (args : List Value) (hm : argsMatch s args = true) :
    (invokeCmd b host args).received = some (expectedInputs s args) ∧
    (invokeCmd b host args).out =
      cmdResult (cmdRetOf s.results) (List.zipWith GoVal.mk s.results (host (expectedInputs s args))) := by
  obtain ⟨_, _, rfl⟩ := (registerCommand_fn s b).mp h
  have hci := convertInputs_of_match s args hm
  simp [invokeCmd, hci, reflectCall_converted s host hh args _ hci]

/-- the conversion table of `conv`, per declared kind (named or not) -/
theorem conv_table (named : Bool) (x : F64) (b : Bool) (str : String) :
    conv (.basic .int named) (.num x) = ⟨.basic .int named, .int x.toInt64⟩ ∧
    conv (.basic .int64 named) (.num x) = ⟨.basic .int64 named, .int x.toInt64⟩ ∧
    conv (.basic .int32 named) (.num x) = ⟨.basic .int32 named, .int (toInt32 x)⟩ ∧
    conv (.basic .int16 named) (.num x) = ⟨.basic .int16 named, .int (F64.wrapInt 16 (toInt32 x))⟩ ∧
    conv (.basic .int8 named) (.num x) = ⟨.basic .int8 named, .int (F64.wrapInt 8 (toInt32 x))⟩ ∧
    conv (.basic .float32 named) (.num x) = ⟨.basic .float32 named, .float x.toF32⟩ ∧
    conv (.basic .float64 named) (.num x) = ⟨.basic .float64 named, .float x⟩ ∧
    conv (.basic .bool named) (.bool b) = ⟨.basic .bool named, .bool b⟩ ∧
    conv (.basic .string named) (.str str) = ⟨.basic .string named, .str str⟩ ∧
    conv .errStr (.str str) = ⟨.errStr, .str str⟩ := by
  simp [conv, convPayload, valueKind?]

/-! results come back converted, per return shape (functions) -/

/-- `noReturn`: nothing comes back -/
theorem result_noReturn (outs : List GoVal) : fnResult (fnRetOf []) outs = .ok none := by
  simp [fnRetOf, fnResult]

/-- `valueReturn`: a result of a supported type comes back as the yarn value of its payload (integers through
`float64(int64)`) -/
theorem result_valueReturn (t : GoType) (q : Payload) (hs : Supported t) (hf : fits t q = true) :
    ∃ v, valueOfPayload q = some v ∧ fnResult (fnRetOf [t]) [⟨t, q⟩] = .ok (some v) := by
  have hk := (valueKind_isSome_iff t).mpr hs
  cases t with
  | basic k n =>
    cases k <;> cases q <;> simp [fits] at hf <;> simp [Supported] at hs <;>
      simp [fnRetOf, valueKind?, fnResult, getTreeValue, valueOfPayload]
  | errStr => cases q <;> simp [fits] at hf; simp [fnRetOf, valueKind?, fnResult, getTreeValue, valueOfPayload]
  | _ => simp [Supported] at hs

/-- `errorReturn`: a nil `error` is "nothing, no error"; anything else is an error for the script -/
theorem result_errorReturn (t : GoType) (q : Payload) (hs : ¬ Supported t) (_he : ImplementsError t) :
    fnResult (fnRetOf [t]) [⟨t, q⟩] = (if interfaceIsNil ⟨t, q⟩ then .ok none else .err .callFailed) := by
  have hk : (valueKind? t).isSome = false := by
    cases h : (valueKind? t).isSome
    · rfl
    · exact absurd ((valueKind_isSome_iff t).mp h) hs
  simp only [fnRetOf, hk, Bool.false_eq_true, ↓reduceIte, fnResult]
  split <;> simp

/-- `valueErrorReturn`: a non-nil error wins, otherwise the value comes back -/
theorem result_valueErrorReturn (t e : GoType) (q q' : Payload) (hs : Supported t) :
    fnResult (fnRetOf [t, e]) [⟨t, q⟩, ⟨e, q'⟩] =
      (if interfaceIsNil ⟨e, q'⟩ then fnResult (fnRetOf [t]) [⟨t, q⟩] else .err .callFailed) := by
  have hk := (valueKind_isSome_iff t).mpr hs
  simp only [fnRetOf, hk, ↓reduceIte, fnResult]
  cases interfaceIsNil ⟨e, q'⟩ <;> simp

/-- commands: `noReturn` completes; `errorReturn` completes or fails with the returned error; `errorChanReturn` hands
the host's channel to the runner (a nil channel is an error) -/
theorem result_cmd (t : GoType) (q : Payload) (st : ChanSt) :
    cmdResult (cmdRetOf []) [] = .done ∧
    (ImplementsError t → cmdResult (cmdRetOf [t]) [⟨t, q⟩] = (if interfaceIsNil ⟨t, q⟩ then .done else .failed)) ∧
    (ErrChanLike t → cmdResult (cmdRetOf [t]) [⟨t, .chan st⟩] =
      (match st with | .nil => .failed | .ready failed => (if failed then .failed else .done) | .empty => .pending)) := by
  refine ⟨by simp [cmdRetOf, cmdResult], fun he => ?_, fun hc => ?_⟩
  · have := (convertibleToError_iff t).mpr he
    simp [cmdRetOf, this, cmdResult]
  · cases t with
    | chanErr d n e => cases st <;> simp [cmdRetOf, convertibleToError, cmdResult]
    | _ => simp [ErrChanLike] at hc

/-! ### 3. count_or_type_mismatch_is_error -/

/-- **C16.3 (functions)**: too few, too many or wrongly typed arguments are an error (of kind `argCount` / `argType`)
raised BEFORE the host function runs. No assumption on the host. -/
theorem count_or_type_mismatch_is_error (s : Sig) (b : FnBridge) (h : registerFunction (.fn s) = .ok b)
    (host : Host) (args : List Value) (hm : argsMatch s args = false) :
    (invokeFn b host args).received = none ∧
    ((invokeFn b host args).out = .err .argCount ∨ (invokeFn b host args).out = .err .argType) := by
  obtain ⟨_, _, rfl⟩ := (registerFunction_fn s b).mp h
  unfold invokeFn
  rcases convertInputs_of_mismatch s args hm with hc | hc <;> simp [hc]

/-- **C16.3 (commands)**: the error is delivered through the channel; the handler does not run. -/
theorem count_or_type_mismatch_is_error_cmd (s : Sig) (b : CmdBridge) (h : registerCommand (.fn s) = .ok b)
    (host : Host) (args : List Value) (hm : argsMatch s args = false) :
    (invokeCmd b host args).received = none ∧ (invokeCmd b host args).out = .failed := by
  obtain ⟨_, _, rfl⟩ := (registerCommand_fn s b).mp h
  unfold invokeCmd
  rcases convertInputs_of_mismatch s args hm with hc | hc <;> simp [hc]

/-- what "mismatch" means, by count: a non-variadic function takes exactly its number of parameters, a variadic one at
least its fixed parameters -/
theorem argsMatch_count (s : Sig) (args : List Value) (hm : argsMatch s args = true) :
    (s.variadic = none → args.length = s.params.length) ∧ (s.variadic ≠ none → s.params.length ≤ args.length) := by
  unfold argsMatch at hm
  cases hv : s.variadic with
  | none => simp only [hv] at hm; simp [fitsFixed_length _ _ hm]
  | some t => simp only [hv, Bool.and_eq_true, decide_eq_true_eq] at hm; simp [hm.1.1]

/-! ### 4. unbridgeable_refused, register_decision -/

/-- **C16.4 `register_decision`**: the exact accept/refuse table. A function value is accepted as a FUNCTION iff all its
parameters (and the element type of a variadic tail) are of a signed integer, float, bool or string kind — predeclared
or named — and its results are: none; one value of such a kind; one `error`-implementing type; or such a value followed
by an `error`-implementing type. It is accepted as a COMMAND iff the same holds of its parameters and its results are:
none; one `error`-implementing type; or one bidirectional or receive-only channel of `error` (named or not). When
accepted, the bridge is the one for that signature with the corresponding return shape. -/
theorem register_decision (s : Sig) :
    ((∃ b, registerFunction (.fn s) = .ok b) ↔ FnBridgeable s) ∧
    ((∃ b, registerCommand (.fn s) = .ok b) ↔ CmdBridgeable s) ∧
    (∀ b, registerFunction (.fn s) = .ok b → b = ⟨s, fnRetOf s.results, false⟩) ∧
    (∀ b, registerCommand (.fn s) = .ok b → b = ⟨s, cmdRetOf s.results, false⟩) := by
  refine ⟨⟨?_, ?_⟩, ⟨?_, ?_⟩, ?_, ?_⟩
  · rintro ⟨b, hb⟩
    obtain ⟨h1, h2, _⟩ := (registerFunction_fn s b).mp hb
    exact ⟨(inputsSupported_iff s).mp h2, (checkFunctionOutputs_isSome_iff _).mp h1⟩
  · rintro ⟨h1, h2⟩
    exact ⟨_, (registerFunction_fn s _).mpr ⟨(checkFunctionOutputs_isSome_iff _).mpr h2, (inputsSupported_iff s).mpr h1, rfl⟩⟩
  · rintro ⟨b, hb⟩
    obtain ⟨h1, h2, _⟩ := (registerCommand_fn s b).mp hb
    exact ⟨(inputsSupported_iff s).mp h2, (checkCommandOutputs_isSome_iff _).mp h1⟩
  · rintro ⟨h1, h2⟩
    exact ⟨_, (registerCommand_fn s _).mpr ⟨(checkCommandOutputs_isSome_iff _).mpr h2, (inputsSupported_iff s).mpr h1, rfl⟩⟩
  · intro b hb; exact ((registerFunction_fn s b).mp hb).2.2
  · intro b hb; exact ((registerCommand_fn s b).mp hb).2.2

/-- registration never panics, whatever is handed in (the unrepaired code dereferenced `reflect.TypeOf(nil)`: F22) -/
theorem register_never_panics (hv : HostValue) (p : PanicSite) :
    registerFunction hv ≠ .panic p ∧ registerCommand hv ≠ .panic p := by
  constructor
  · cases hv <;> simp only [registerFunction] <;> (try simp) <;> (split <;> (try split) <;> simp)
  · cases hv <;> simp only [registerCommand] <;> (try simp) <;> (split <;> (try split) <;> simp)

/-- **C16.4 `unbridgeable_refused`**: nil, non-function values, and every signature outside the table are refused with an
error at registration: an unsupported parameter (uint kinds, struct, slice, pointer, interface, channel, func, map, an
`error`), an unsupported variadic element type, too many results, or an unsupported result shape. -/
theorem unbridgeable_refused :
    registerFunction .nilIface = .err .other ∧ registerCommand .nilIface = .err .other ∧
    (∀ t, registerFunction (.notFunc t) = .err .other ∧ registerCommand (.notFunc t) = .err .other) ∧
    (∀ s, ¬ FnBridgeable s → registerFunction (.fn s) = .err .other) ∧
    (∀ s, ¬ CmdBridgeable s → registerCommand (.fn s) = .err .other) := by
  refine ⟨rfl, rfl, fun t => ⟨rfl, rfl⟩, fun s hn => ?_, fun s hn => ?_⟩
  · have hd := (register_decision s).1
    cases h : registerFunction (.fn s) with
    | ok b => exact absurd (hd.mp ⟨b, h⟩) hn
    | panic p => exact absurd h (register_never_panics _ p).1
    | err k =>
      simp only [registerFunction] at h
      split at h
      · injection h with h; rw [h]
      · split at h
        · cases h
        · injection h with h; rw [h]
  · have hd := (register_decision s).2.1
    cases h : registerCommand (.fn s) with
    | ok b => exact absurd (hd.mp ⟨b, h⟩) hn
    | panic p => exact absurd h (register_never_panics _ p).2
    | err k =>
      simp only [registerCommand] at h
      split at h
      · injection h with h; rw [h]
      · split at h
        · cases h
        · injection h with h; rw [h]

/-! ### non-vacuity and documentation of the findings -/

/-- a bridgeable signature with named types and a variadic tail: `func(NInt8, string, ...NFloat32) (int, error)` -/
def exSig : Sig :=
  { params := [.basic .int8 true, .basic .string false], variadic := some (.basic .float32 true),
    results := [.basic .int false, .error false] }
def exHost : Host := fun _ => [.int 42, .iface false]
def exBridge : FnBridge := ⟨exSig, .valueErrorReturn, false⟩

example : registerFunction (.fn exSig) = .ok exBridge := rfl
example : HostRespects exSig exHost := fun _ => rfl
example : FnBridgeable exSig := (register_decision exSig).1.mp ⟨exBridge, rfl⟩
/-- 300 converted to int8 wraps to 44; the tail is converted to the named float type -/
example : argsMatch exSig [.num (F64.ofInt 300), .str "a", .num (F64.ofInt 2)] = true := by decide
example : (invokeFn exBridge exHost [.num (F64.ofInt 300), .str "a", .num (F64.ofInt 2)]).received =
    some [⟨.basic .int8 true, .int 44⟩, ⟨.basic .string false, .str "a"⟩, ⟨.basic .float32 true, .float (F64.ofInt 2)⟩] := by
  decide
/-- too few arguments and a wrongly typed argument: errors, the host does not run -/
example : argsMatch exSig [.num (F64.ofInt 1)] = false := by decide
example : argsMatch exSig [.str "x", .str "a"] = false := by decide
example : (invokeFn exBridge exHost [.str "x", .str "a"]).received = none := by decide
/-- refused: a uint parameter, a send-only channel result, three results -/
example : ¬ FnBridgeable { params := [.basic .uint false] } := by simp [FnBridgeable, InputsOK, Supported]
example : registerCommand (.fn { params := [], results := [.chanErr .send false true] }) = .err .other := rfl
example : registerFunction (.fn { params := [], results := [.basic .int false, .error false, .error false] }) = .err .other := rfl
/-- accepted as a command: a named bidirectional channel of error, delivering nil -/
example : registerCommand (.fn { params := [.basic .bool true], results := [.chanErr .both true true] }) =
    .ok ⟨{ params := [.basic .bool true], results := [.chanErr .both true true] }, .errorChanReturn, false⟩ := rfl

/-- **F23 (documentation)**: the UNREPAIRED converter produced a value of the predeclared type of the parameter's kind;
on a parameter of a named int type `reflect.Value.Call` panics. -/
example : (invokeFnOld ⟨{ params := [.basic .int true] }, .noReturn, false⟩ (fun _ => []) [.num (F64.ofInt 3)]).out =
    .panic .reflectCall := rfl
/-- … and the repaired one calls the host with a value of the declared type -/
example : (invokeFn ⟨{ params := [.basic .int true] }, .noReturn, false⟩ (fun _ => []) [.num (F64.ofInt 3)]).received =
    some [⟨.basic .int true, .int 3⟩] := by decide

/-- a nil function VALUE of a function type is refused at registration (repaired: it used to pass both gates — only
`reflect.TypeOf` was inspected — and every call then panicked in `reflect.Value.Call`, finding F29) -/
theorem nilFn_refused (s : Sig) :
    registerFunction (.nilFn s) = .err .other ∧ registerCommand (.nilFn s) = .err .other := ⟨rfl, rfl⟩

/-- documentation of F29: a bridge around a nil function value, had it been accepted, panics on every call -/
example : (invokeFn ⟨{ params := [] }, .noReturn, true⟩ (fun _ => []) []).out = .panic .nilDeref := rfl

end Ysgo.C16
