import Ysgo.Lemmas.NoPanic
/-!
# C06 — Running a valid script never panics: script-level faults surface as errors

Every place where the Go code could panic is an explicit `panic` outcome of the model (indexing the options with the
choice, `rand.Intn(n ≤ 0)`, a nil result used as a value, …). The theorems show that outcome unreachable for every
program — well-formed or deliberately ill-typed —, every state (so also after any number of errors), every host that
does not itself panic, and every choice that is in range when a choice is expected.
-/
namespace Ysgo.C06
open Ysgo
set_option linter.unusedSimpArgs false

variable {σ π μ : Type}

/-- the choice is in range whenever one is expected -/
def ChoiceInRange (r : R σ π) (c : Nat) : Prop := ∀ bodies, r.waiting = some bodies → c < bodies.length

/-- one iteration of `Next` never panics -/
theorem micro_never_panics (env : Env σ) (hn : EnvNoPanic env) (mk : Markup π μ) (hm : MarkupNoPanic mk) (p : Program)
    (r : R σ π) (c : Nat) (hc : ChoiceInRange r c) (q : PanicSite) : (r.micro env mk p c).2 ≠ some (.panic q) := by
  unfold R.micro
  have hp := poll_no_panic (μ := μ) r.d q
  cases hpp : poll (μ := μ) r.d with
  | mk d o =>
    rw [hpp] at hp
    cases o with
    | some out => simpa using hp
    | none =>
      simp only
      cases hw : r.waiting with
      | some bodies =>
        have hlt := hc bodies hw
        simp only
        have : bodies[c]? = some bodies[c] := List.getElem?_eq_getElem hlt
        rw [this]
        simp only
        split <;> simp
      | none =>
        simp only
        cases hs : r.stack with
        | nil => simp
        | cons sq rest =>
          simp only
          cases hq : sq.stmts[sq.ptr]? with
          | none => simp
          | some st =>
            simp only
            have he := exec_no_panic env hn mk hm p d st q
            cases hex : exec env mk p d st with
            | mk d' co =>
              obtain ⟨ctl, out⟩ := co
              rw [hex] at he
              simpa using he

/-- an iteration that produces no output never starts to wait for a choice -/
theorem micro_silent_not_waiting (env : Env σ) (mk : Markup π μ) (p : Program) (r r1 : R σ π) (c : Nat)
    (hm : r.micro env mk p c = (r1, none)) : r1.waiting = none := by
  unfold R.micro at hm
  cases hp : poll (μ := μ) r.d with
  | mk d o =>
    cases o with
    | some out => simp [hp] at hm
    | none =>
      simp only [hp] at hm
      cases hw : r.waiting with
      | some bodies =>
        simp only [hw] at hm
        cases hb : bodies[c]? with
        | none => simp [hb] at hm
        | some b =>
          simp only [hb] at hm
          split at hm <;> (simp only [Prod.mk.injEq] at hm; rw [← hm.1])
      | none =>
        simp only [hw] at hm
        cases hs : r.stack with
        | nil => simp [hs] at hm
        | cons q rest =>
          simp only [hs] at hm
          cases hq : q.stmts[q.ptr]? with
          | none => simp [hq] at hm; rw [← hm]
          | some st =>
            simp only [hq] at hm
            cases he : exec env mk p d st with
            | mk d' co =>
              obtain ⟨ctl, out⟩ := co
              simp only [he, Prod.mk.injEq] at hm
              obtain ⟨h1, h2⟩ := hm
              subst h2
              rw [← h1]

/-- C06.1 `next_never_panics`: `Next` returns an element, the end marker, `waiting` or an error — never a panic —
for every program, every state, every fuel -/
theorem next_never_panics (env : Env σ) (hn : EnvNoPanic env) (mk : Markup π μ) (hm : MarkupNoPanic mk) (p : Program) :
    ∀ (f : Nat) (r : R σ π) (c : Nat), ChoiceInRange r c → ∀ q, (r.next env mk p f c).2 ≠ .out (.panic q)
  | 0, r, c, _, q => by simp [R.next]
  | f + 1, r, c, hc, q => by
    unfold R.next
    have h1 := micro_never_panics env hn mk hm p r c hc q
    cases hmi : r.micro env mk p c with
    | mk r1 o1 =>
      rw [hmi] at h1
      cases o1 with
      | some out =>
        simp only
        intro h
        apply h1
        simp only [NextRes.out.injEq] at h
        rw [h]
      | none =>
        simp only
        have hw := micro_silent_not_waiting env mk p r r1 c hmi
        exact next_never_panics env hn mk hm p f r1 c (by intro b hb; rw [hw] at hb; cases hb) q

/-- C06.3 `usable_after_error`: the theorem above needs no invariant on the state, so it applies again to the state
left by a call that returned an error: the runner remains usable -/
theorem usable_after_error (env : Env σ) (hn : EnvNoPanic env) (mk : Markup π μ) (hm : MarkupNoPanic mk) (p : Program)
    (f : Nat) (r r' : R σ π) (c : Nat) (k : ErrKind) (_h : r.next env mk p f c = (r', .out (.err k)))
    (f' c' : Nat) (hc : ChoiceInRange r' c') (q : PanicSite) : (r'.next env mk p f' c').2 ≠ .out (.panic q) :=
  next_never_panics env hn mk hm p f' r' c' hc q

/-! ### C06.2 `faults_are_errors`: each class of script-level fault yields an error -/

theorem null_is_error (env : Env σ) (st : Store) (vis : Map Nat) (w : W σ) :
    eval env st vis .null w = (.err .null, w) := by simp [eval]

theorem unknown_variable_is_error (env : Env σ) (st : Store) (vis : Map Nat) (n : String) (w : W σ) (h : st.get n = none) :
    eval env st vis (.var n) w = (.err .unknownVar, w) := by simp [eval, h]

theorem unknown_function_is_error (env : Env σ) (vis : Map Nat) (f : String) (args : List Value) (w : W σ)
    (h1 : env.knows f = false) (h2 : builtinNames.contains f = false) :
    callFn env vis f args w = (.err .unknownFn, w) := by
  unfold callFn
  rw [h1, h2]
  simp

theorem valueless_function_as_value_is_error (env : Env σ) (st : Store) (vis : Map Nat) (f : String) (args : List Expr)
    (vs : List Value) (w w' w'' : W σ) (h1 : evalArgs env st vis args w = (.ok vs, w'))
    (h2 : callFn env vis f vs w' = (.ok none, w'')) :
    eval env st vis (.call f args) w = (.err .noValue, w'') := by simp [eval, h1, h2]

theorem dice_out_of_domain_is_error (vis : Map Nat) (x : F64) (g : Rng.Src) (h : x.toInt64 < 1) :
    builtin vis "dice" [.num x] g = (.err .domain, g) := by simp [builtin, h]

theorem random_range_inverted_is_error (vis : Map Nat) (a b : F64) (g : Rng.Src) (h : b.toInt64 < a.toInt64) :
    builtin vis "random_range" [.num a, .num b] g = (.err .domain, g) := by simp [builtin, h]

theorem wrong_argument_count_is_error (vis : Map Nat) (g : Rng.Src) :
    (builtin vis "floor" [] g).1 = .err .argCount ∧ (builtin vis "floor" [.num (F64.ofInt 1), .num (F64.ofInt 2)] g).1 = .err .argCount ∧
    (builtin vis "dice" [] g).1 = .err .argCount ∧ (builtin vis "string" [] g).1 = .err .argCount := by
  simp [builtin, conv1]

theorem wrong_argument_type_is_error (vis : Map Nat) (g : Rng.Src) (s : String) (b : Bool) :
    (builtin vis "floor" [.str s] g).1 = .err .argType ∧ (builtin vis "dice" [.bool b] g).1 = .err .argType ∧
    (builtin vis "visited" [.bool b] g).1 = .err .argType := by
  simp [builtin, conv1]

theorem ill_typed_operation_is_error (op : BinOp) (a b : Value) (h : a.ty ≠ b.ty) : binAfter op a b = .err .illTyped := by
  simp [binAfter, h]

theorem unknown_node_is_error (env : Env σ) (mk : Markup π μ) (p : Program) (d : Data σ π) (e : Expr) (t : String) (w : W σ)
    (he : eval env d.store d.visited e d.w = (.ok (.str t), w)) (hf : p.find t = none) :
    exec env mk p d (.jump e) = ({ d with w := w }, .next, some (.err .unknownNode)) := by simp [exec, he, hf]

theorem unknown_command_is_error (env : Env σ) (mk : Markup π μ) (p : Program) (d : Data σ π) (e : Expr) (es : List Expr)
    (name : String) (args : List Value) (w : W σ) (h : σ)
    (he : evalArgs env d.store d.visited (e :: es) d.w = (.ok (.str name :: args), w)) (hs : name ≠ "stop")
    (hc : env.cmd name args w.host = (.unknown, h)) :
    (exec env mk p d (.cmd (e :: es))).2.2 = some (.err .unknownCmd) := by simp [exec, he, hs, hc]

/-- non-vacuity: a host that never panics exists, and `dice(0)` is an error under it -/
example : EnvNoPanic (σ := Unit) ⟨fun _ _ h => (.err .callFailed, h), fun _ => false, fun _ _ h => (.unknown, h)⟩ :=
  ⟨by intro f vs h q; simp, by intro n vs h; simp⟩

end Ysgo.C06
