import Ysgo.Generated.EvalIR
/-!
# C02 — the control flow of evaluator.go, regenerated from the source on every run, IS the model's `eval`

`tools/evalir` translates (go/ast, purely syntactically) the four functions of evaluator.go into Lean data
(`Generated/EvalIR.lean`, a term of the statement/expression embedding of `Spec/GoIR.lean`). `GoIR.run` gives that data its
Go meaning over the model's semantic domain. Here it is proved that, for ALL environments, stores, visit tables,
expressions and worlds, running the translated `evaluateExpression` yields exactly the outcome and the world of the
hand-written `eval` (`evaluateExpression_is_model`), and likewise `evaluateFunctionCall` (arguments left to right, stop
at the first failure without calling, then `callFn`, error on failure, error on a nil result) and
`evaluateBinaryOperation` (left operand first, lazy blocks returning the LEFT value, only then the right operand,
same-type guard, operator switch), and `xor`.

So the model's `eval` is re-tied to what the code says now: a semantic change of evaluator.go regenerates other data and
breaks a theorem here (mutants/evalir/S*.patch), a behaviour-preserving rewrite regenerates other data for which the
same proofs go through (mutants/evalir/N*.patch) — the proofs case-split on the *inputs* and let `simp` run the
interpreter on whatever the translated code is; they do not mention the shape of the code, with one exception: the loop
invariant of `evaluateFunctionCall` names the slice of evaluated arguments as local 3 (the first local declared).

What the tie does NOT see: the ORDER of the cases of the `switch` of `evaluateExpression`. The model's `Expr` is a sum
type — an expression has exactly one of its fields set, which is what internal/tree builds — and on that domain the order
of the cases is unobservable (mutants/evalir/E1: swapping the `Value` and `FunctionCall` cases is an equivalent mutant
and stays green). The trusted base (representation of Go values, error kinds of the error sites, meaning of the
operators and of the two interface parameters) is listed at the top of `Spec/GoIR.lean`.
-/
namespace Ysgo.C02IR
open Ysgo Ysgo.GoIR Ysgo.Generated
set_option linter.unusedSimpArgs false

variable {σ : Type}

theorem lookup_evaluateExpression : lookupDef evalIR "evaluateExpression" = some (3, evaluateExpression_body) := by
  simp [lookupDef, evalIR]
theorem lookup_evaluateBinaryOperation : lookupDef evalIR "evaluateBinaryOperation" = some (5, evaluateBinaryOperation_body) := by
  simp [lookupDef, evalIR]
theorem lookup_evaluateFunctionCall : lookupDef evalIR "evaluateFunctionCall" = some (3, evaluateFunctionCall_body) := by
  simp [lookupDef, evalIR]
theorem lookup_xor : lookupDef evalIR "xor" = some (2, xor_body) := by
  simp [lookupDef, evalIR]

section
attribute [local simp] step lookup_evaluateExpression lookup_evaluateBinaryOperation lookup_evaluateFunctionCall lookup_xor
  execBlock exec execCases caseMatches evalPure evalList effCall hostCall bindFrom bindVars lookupVar fieldOf derefOf indexOf
  isNil opCode eqPrim nePrim binPrim unPrim prim errorfVal errKinds siteKind constant toFlow pureRun pureStep host
  lookupDef evalIR

/-- split a value by constructor, and a boolean by its two values -/
local macro "split_val " a:ident : tactic => `(tactic| (cases $a:ident <;> try cases ‹Bool›))

/-- the statement of `evaluateBinaryOperation_step` for one operator -/
def BinStep (env : Env σ) (st : Store) (vis : Map Nat) (o : BinOp) : Prop :=
  ∀ (callee : String → List GV → W σ → Flow σ) (l r : Expr) (w : W σ),
    (∀ w', callee "evaluateExpression" [.expr l, .retriever, .caller] w' = toFlow (eval env st vis l w')) →
    (∀ w', callee "evaluateExpression" [.expr r, .retriever, .caller] w' = toFlow (eval env st vis r w')) →
    step evalIR (host env st vis) callee "evaluateBinaryOperation" [.op o, .expr l, .expr r, .retriever, .caller] w
      = toFlow (eval env st vis (.bin o l r) w)

set_option hygiene false in
/-- the proof for a concrete operator: split on the outcome of the left operand, then of the right one, then on the
values, and let `simp` run the translated function. `sa`/`sb`: how far the operand values must be split (an operand that
decides control flow as a boolean is split down to `true`/`false`). -/
local macro "bin_step " sa:tactic " | " sb:tactic : tactic => `(tactic| (
  unfold BinStep
  intro callee l r w hl hr
  rcases hL : eval env st vis l w with ⟨ol, w1⟩
  cases ol with
  | err k => simp [evaluateBinaryOperation_body, hl, hL, eval]
  | panic p => simp [evaluateBinaryOperation_body, hl, hL, eval]
  | ok a =>
    rcases hR : eval env st vis r w1 with ⟨or, w2⟩
    cases or with
    | err k => ($sa:tactic) <;> simp [evaluateBinaryOperation_body, hl, hr, hL, hR, eval, lazyTest]
    | panic p => ($sa:tactic) <;> simp [evaluateBinaryOperation_body, hl, hr, hL, hR, eval, lazyTest]
    | ok b => ($sa:tactic) <;> ($sb:tactic) <;>
        simp [evaluateBinaryOperation_body, xor_body, hl, hr, hL, hR, eval, lazyTest, binAfter, binSwitch, Value.ty, numBin, numCmp]))

theorem bin_mul (env : Env σ) (st : Store) (vis : Map Nat) : BinStep env st vis .mul := by bin_step cases a | cases b
theorem bin_div (env : Env σ) (st : Store) (vis : Map Nat) : BinStep env st vis .div := by bin_step cases a | cases b
theorem bin_mod (env : Env σ) (st : Store) (vis : Map Nat) : BinStep env st vis .mod := by bin_step cases a | cases b
theorem bin_add (env : Env σ) (st : Store) (vis : Map Nat) : BinStep env st vis .add := by bin_step cases a | cases b
theorem bin_sub (env : Env σ) (st : Store) (vis : Map Nat) : BinStep env st vis .sub := by bin_step cases a | cases b
theorem bin_le (env : Env σ) (st : Store) (vis : Map Nat) : BinStep env st vis .le := by bin_step cases a | cases b
theorem bin_ge (env : Env σ) (st : Store) (vis : Map Nat) : BinStep env st vis .ge := by bin_step cases a | cases b
theorem bin_lt (env : Env σ) (st : Store) (vis : Map Nat) : BinStep env st vis .lt := by bin_step cases a | cases b
theorem bin_gt (env : Env σ) (st : Store) (vis : Map Nat) : BinStep env st vis .gt := by bin_step cases a | cases b
theorem bin_eq (env : Env σ) (st : Store) (vis : Map Nat) : BinStep env st vis .eq := by bin_step cases a | cases b
theorem bin_ne (env : Env σ) (st : Store) (vis : Map Nat) : BinStep env st vis .ne := by bin_step cases a | cases b
theorem bin_and (env : Env σ) (st : Store) (vis : Map Nat) : BinStep env st vis .and := by bin_step split_val a | cases b
theorem bin_or (env : Env σ) (st : Store) (vis : Map Nat) : BinStep env st vis .or := by bin_step split_val a | cases b
theorem bin_xor (env : Env σ) (st : Store) (vis : Map Nat) : BinStep env st vis .xor := by bin_step split_val a | split_val b

/-- `evaluateBinaryOperation` as translated is the `.bin` equation of the model — given that the calls of
`evaluateExpression` on the two operands it makes are the model's `eval` -/
theorem evaluateBinaryOperation_step (env : Env σ) (st : Store) (vis : Map Nat) (o : BinOp) : BinStep env st vis o := by
  cases o
  · exact bin_mul env st vis
  · exact bin_div env st vis
  · exact bin_mod env st vis
  · exact bin_add env st vis
  · exact bin_sub env st vis
  · exact bin_le env st vis
  · exact bin_ge env st vis
  · exact bin_lt env st vis
  · exact bin_gt env st vis
  · exact bin_eq env st vis
  · exact bin_ne env st vis
  · exact bin_and env st vis
  · exact bin_or env st vis
  · exact bin_xor env st vis


/-- `evaluateExpression` as translated is the model's `eval` on every form of expression — given that the calls it
makes (on a sub-expression, of `evaluateFunctionCall`, of `evaluateBinaryOperation`) are the model's -/
theorem evaluateExpression_step (env : Env σ) (st : Store) (vis : Map Nat) (callee : String → List GV → W σ → Flow σ)
    (e : Expr) (w : W σ)
    (hneg : ∀ a w', e = .neg a → callee "evaluateExpression" [.expr a, .retriever, .caller] w' = toFlow (eval env st vis a w'))
    (hnot : ∀ a w', e = .not a → callee "evaluateExpression" [.expr a, .retriever, .caller] w' = toFlow (eval env st vis a w'))
    (hcall : ∀ f args w', e = .call f args →
      callee "evaluateFunctionCall" [.fcall f args, .retriever, .caller] w' = toFlow (eval env st vis (.call f args) w'))
    (hbin : ∀ o l r w', e = .bin o l r →
      callee "evaluateBinaryOperation" [.op o, .expr l, .expr r, .retriever, .caller] w' = toFlow (eval env st vis (.bin o l r) w')) :
    step evalIR (host env st vis) callee "evaluateExpression" [.expr e, .retriever, .caller] w = toFlow (eval env st vis e w) := by
  cases e with
  | lit v => simp [evaluateExpression_body, eval]
  | null => simp [evaluateExpression_body, eval]
  | var n => cases hg : st.get n <;> simp [evaluateExpression_body, eval, hg]
  | call f args =>
    rcases hE : eval env st vis (.call f args) w with ⟨oa, w1⟩
    cases oa <;> simp [evaluateExpression_body, hcall f args _ rfl, hE]
  | neg a =>
    rcases hE : eval env st vis a w with ⟨oa, w1⟩
    cases oa with
    | ok v => cases v <;> simp [evaluateExpression_body, eval, hneg a _ rfl, hE]
    | err k => simp [evaluateExpression_body, eval, hneg a _ rfl, hE]
    | panic p => simp [evaluateExpression_body, eval, hneg a _ rfl, hE]
  | not a =>
    rcases hE : eval env st vis a w with ⟨oa, w1⟩
    cases oa with
    | ok v => cases v <;> simp [evaluateExpression_body, eval, hnot a _ rfl, hE]
    | err k => simp [evaluateExpression_body, eval, hnot a _ rfl, hE]
    | panic p => simp [evaluateExpression_body, eval, hnot a _ rfl, hE]
  | bin o l r =>
    rcases hE : eval env st vis (.bin o l r) w with ⟨oa, w1⟩
    cases oa <;> simp [evaluateExpression_body, hbin o l r _ rfl, hE]


/-! ### evaluateFunctionCall: the loop over the arguments -/

/-- what the loop of `evaluateFunctionCall` keeps true of its variables: the three parameters, and the slice of the
values of the arguments evaluated so far (local 3: the first local declared in the function) -/
def ArgInv (f : String) (args : List Expr) (acc : List Value) (env : GoIR.Env) : Prop :=
  lookupVar env 0 = some (.fcall f args) ∧ lookupVar env 1 = some .retriever ∧ lookupVar env 2 = some .caller ∧
  lookupVar env 3 = some (.vals acc)

/-- the outcome of the loop (or of one iteration) against the model's outcome of the arguments concerned -/
def LoopSpec (f : String) (args : List Expr) (acc : List Value) (fl : Flow σ) : Outcome (List Value) × W σ → Prop
  | (.ok vs, w') => ∃ env', fl = .next env' w' ∧ ArgInv f args (acc ++ vs) env'
  | (.err k, w') => fl = .ret [.nil, .err k] w'
  | (.panic p, w') => fl = .panic p w'

/-- one iteration against the model's evaluation of that argument -/
def single : Outcome Value × W σ → Outcome (List Value) × W σ
  | (.ok v, w) => (.ok [v], w)
  | (.err k, w) => (.err k, w)
  | (.panic p, w) => (.panic p, w)

theorem loop_spec (env₀ : Env σ) (st : Store) (vis : Map Nat) (f : String) (args : List Expr)
    (body : GoIR.Env → W σ → Flow σ) (i : Nat)
    (hbody : ∀ (done : List Expr) (e : Expr) (rest : List Expr) (acc : List Value) (env : GoIR.Env) (w : W σ),
      args = done ++ e :: rest → ArgInv f args acc env →
      LoopSpec f args acc (body ((i, .int done.length) :: env) w) (single (eval env₀ st vis e w))) :
    ∀ (rest done : List Expr) (acc : List Value) (env : GoIR.Env) (w : W σ) (fl : Flow σ),
      args = done ++ rest → ArgInv f args acc env → forLoop body i rest.length done.length env w = fl →
      LoopSpec f args acc fl (evalArgs env₀ st vis rest w) := by
  intro rest
  induction rest with
  | nil =>
    intro done acc env w fl _ hinv hfl
    simp [forLoop] at hfl
    subst hfl
    simpa [evalArgs, LoopSpec] using hinv
  | cons e rest ih =>
    intro done acc env w fl hargs hinv hfl
    have hb := hbody done e rest acc env w hargs hinv
    simp only [List.length_cons, forLoop] at hfl
    rcases hE : eval env₀ st vis e w with ⟨oe, w1⟩
    rw [hE] at hb
    cases oe with
    | err k => simp only [single, LoopSpec] at hb; rw [hb] at hfl; subst hfl; simp [evalArgs, hE, LoopSpec]
    | panic p => simp only [single, LoopSpec] at hb; rw [hb] at hfl; subst hfl; simp [evalArgs, hE, LoopSpec]
    | ok v =>
      simp only [single, LoopSpec] at hb
      obtain ⟨env', hb1, hinv'⟩ := hb
      rw [hb1] at hfl
      have hlen : done.length + 1 = (done ++ [e]).length := by simp
      rw [hlen] at hfl
      have := ih (done ++ [e]) (acc ++ [v]) env' w1 fl (by simp [hargs]) hinv' hfl
      rcases hR : evalArgs env₀ st vis rest w1 with ⟨or, w2⟩
      rw [hR] at this
      cases or with
      | ok vs =>
        simp only [LoopSpec] at this
        obtain ⟨env'', h1, h2⟩ := this
        simp only [evalArgs, hE, hR, LoopSpec]
        exact ⟨env'', h1, by simpa using h2⟩
      | err k => simpa only [evalArgs, hE, hR, LoopSpec] using this
      | panic p => simpa only [evalArgs, hE, hR, LoopSpec] using this

theorem getElem?_mid {α} (done : List α) (e : α) (rest : List α) : (done ++ e :: rest)[done.length]? = some e := by simp


/-- `evaluateFunctionCall` as translated is the `.call` equation of the model: the arguments left to right through
`evalArgs` (stopping at the first failure, without calling the function), then `callFn`, an error if the call fails, an
error if it returns no value — given that the calls of `evaluateExpression` on the arguments are the model's `eval` -/
theorem evaluateFunctionCall_step (env : Env σ) (st : Store) (vis : Map Nat) (callee : String → List GV → W σ → Flow σ)
    (f : String) (args : List Expr) (w : W σ)
    (harg : ∀ e w', e ∈ args → callee "evaluateExpression" [.expr e, .retriever, .caller] w' = toFlow (eval env st vis e w')) :
    step evalIR (host env st vis) callee "evaluateFunctionCall" [.fcall f args, .retriever, .caller] w
      = toFlow (eval env st vis (.call f args) w) := by
  simp [evaluateFunctionCall_body]
  generalize hfl : forLoop _ _ _ _ _ _ = fl
  have spec := loop_spec env st vis f args _ _ ?hbody args [] [] _ w fl rfl ?hinv hfl
  case hinv => simp [ArgInv]
  case hbody =>
    intro done e rest acc env' w' hargs hinv
    obtain ⟨h0, h1, h2, h3⟩ := hinv
    have he := harg e w' (by simp [hargs])
    rcases hE : eval env st vis e w' with ⟨oe, w1⟩
    cases oe <;> simp [h0, h1, h2, h3, he, hE, hargs, getElem?_mid, single, LoopSpec, ArgInv]
  rcases hA : evalArgs env st vis args w with ⟨oa, w1⟩
  rw [hA] at spec
  cases oa with
  | err k => simp only [LoopSpec] at spec; subst spec; simp [eval, hA]
  | panic p => simp only [LoopSpec] at spec; subst spec; simp [eval, hA]
  | ok vs =>
    simp only [LoopSpec] at spec
    obtain ⟨env', rfl, h0, h1, h2, h3⟩ := spec
    rcases hC : callFn env vis f vs w1 with ⟨oc, w2⟩
    cases oc with
    | ok ov => cases ov <;> simp [eval, hA, hC, h0, h1, h2, h3]
    | err k => simp [eval, hA, hC, h0, h1, h2, h3]
    | panic p => simp [eval, hA, hC, h0, h1, h2, h3]


/-! ### the three functions together: induction on the nesting depth of the calls -/

theorem need_pos (e : Expr) : 1 ≤ need e := by cases e <;> simp [need] <;> omega

theorem need_le_needs (e : Expr) (args : List Expr) (h : e ∈ args) : need e ≤ needs args := by
  induction args with
  | nil => cases h
  | cons a t ih =>
    simp only [needs]
    cases h with
    | head => omega
    | tail _ h' => have := ih h'; omega

/-- with enough nesting depth, the translated `evaluateExpression` (calling the translated `evaluateFunctionCall` and
`evaluateBinaryOperation`, which call it back) computes the model's `eval` -/
theorem run_is_model (env : Env σ) (st : Store) (vis : Map Nat) (n : Nat) :
    ∀ (e : Expr) (w : W σ), need e ≤ n →
      run evalIR (host env st vis) n "evaluateExpression" [.expr e, .retriever, .caller] w = toFlow (eval env st vis e w) := by
  induction n using Nat.strongRecOn with
  | _ n ih =>
    intro e w hn
    cases n with
    | zero => have := need_pos e; omega
    | succ m =>
      show step evalIR (host env st vis) (run evalIR (host env st vis) m) "evaluateExpression" _ w = _
      apply evaluateExpression_step
      · intro a w' he
        subst he
        simp only [need] at hn
        exact ih m (by omega) a w' (by omega)
      · intro a w' he
        subst he
        simp only [need] at hn
        exact ih m (by omega) a w' (by omega)
      · intro f args w' he
        subst he
        simp only [need] at hn
        obtain ⟨k, rfl⟩ : ∃ k, m = k + 1 := ⟨m - 1, by omega⟩
        show step evalIR (host env st vis) (run evalIR (host env st vis) k) "evaluateFunctionCall" _ w' = _
        apply evaluateFunctionCall_step
        intro e' w'' hmem
        have := need_le_needs e' args hmem
        exact ih k (by omega) e' w'' (by omega)
      · intro o l r w' he
        subst he
        simp only [need] at hn
        obtain ⟨k, rfl⟩ : ∃ k, m = k + 1 := ⟨m - 1, by omega⟩
        show step evalIR (host env st vis) (run evalIR (host env st vis) k) "evaluateBinaryOperation" _ w' = _
        exact evaluateBinaryOperation_step env st vis o _ l r w'
          (fun w'' => ih k (by omega) l w'' (by omega)) (fun w'' => ih k (by omega) r w'' (by omega))

theorem fromFlow_toFlow (x : Outcome Value × W σ) : fromFlow (toFlow x) = some x := by
  rcases x with ⟨o, w⟩
  cases o <;> rfl

end

/-! ### the property theorems -/

/-- C02-IR.1 `evaluateExpression_is_model`: evaluator.go as it is written now — translated by `tools/evalir` just before
this build and given its Go meaning by `GoIR.run` — computes on every expression, in every environment, store, visit
table and world exactly the outcome and the world of the hand-written model's `eval`. -/
theorem evaluateExpression_is_model (env : Env σ) (st : Store) (vis : Map Nat) (e : Expr) (w : W σ) :
    runEval evalIR env st vis e w = some (eval env st vis e w) := by
  unfold runEval
  rw [run_is_model env st vis (need e) e w (Nat.le_refl _), fromFlow_toFlow]

/-- the model of a function call, spelled out: arguments by `evalArgs` (left to right, stopping at the first failure, the
function is then not called), then `callFn`; a failing call is an error, a call without result is an error -/
def callModel (env : Env σ) (st : Store) (vis : Map Nat) (f : String) (args : List Expr) (w : W σ) : Outcome Value × W σ :=
  match evalArgs env st vis args w with
  | (.ok vs, w) =>
    (match callFn env vis f vs w with
     | (.ok (some v), w) => (.ok v, w)
     | (.ok none, w) => (.err .noValue, w)
     | (.err k, w) => (.err k, w)
     | (.panic p, w) => (.panic p, w))
  | (.err k, w) => (.err k, w)
  | (.panic p, w) => (.panic p, w)

/-- the model of a binary operation, spelled out: left operand first; `lazyTest` on its value may decide the result (then
the right operand is not evaluated); otherwise the right operand, the same-type guard and the operator switch (`binAfter`) -/
def binModel (env : Env σ) (st : Store) (vis : Map Nat) (op : BinOp) (l r : Expr) (w : W σ) : Outcome Value × W σ :=
  match eval env st vis l w with
  | (.ok a, w) =>
    (match lazyTest op a with
     | some res => (res, w)
     | none =>
       match eval env st vis r w with
       | (.ok b, w) => (binAfter op a b, w)
       | res => res)
  | res => res

theorem callModel_eq (env : Env σ) (st : Store) (vis : Map Nat) (f : String) (args : List Expr) (w : W σ) :
    eval env st vis (.call f args) w = callModel env st vis f args w := by
  simp only [eval, callModel]
  rcases evalArgs env st vis args w with ⟨o, w1⟩
  cases o with
  | ok vs =>
    rcases hc : callFn env vis f vs w1 with ⟨oc, w2⟩
    cases oc with
    | ok ov => cases ov <;> simp only [hc]
    | err k => simp only [hc]
    | panic q => simp only [hc]
  | err k => rfl
  | panic q => rfl

theorem binModel_eq (env : Env σ) (st : Store) (vis : Map Nat) (op : BinOp) (l r : Expr) (w : W σ) :
    eval env st vis (.bin op l r) w = binModel env st vis op l r w := by
  simp only [eval, binModel]
  rcases eval env st vis l w with ⟨o, w1⟩
  cases o with
  | ok a =>
    cases hz : lazyTest op a with
    | some res => simp only [hz]
    | none =>
      simp only [hz]
      rcases hr : eval env st vis r w1 with ⟨o2, w2⟩
      cases o2 <;> simp only [hr]
  | err k => rfl
  | panic q => rfl

/-- C02-IR.2 `evaluateFunctionCall_is_model`: the translated `evaluateFunctionCall` is `evalArgs` then `callFn` -/
theorem evaluateFunctionCall_is_model (env : Env σ) (st : Store) (vis : Map Nat) (f : String) (args : List Expr) (w : W σ) :
    runFunctionCall evalIR env st vis f args w = some (callModel env st vis f args w) := by
  unfold runFunctionCall
  rw [show 1 + needs args = needs args + 1 by omega]
  show fromFlow (step evalIR (host env st vis) (run evalIR (host env st vis) (needs args)) "evaluateFunctionCall" _ w) = _
  rw [evaluateFunctionCall_step env st vis _ f args w
    (fun e w' hmem => run_is_model env st vis _ e w' (need_le_needs e args hmem)), fromFlow_toFlow, callModel_eq]

/-- C02-IR.3 `evaluateBinaryOperation_is_model`: the translated `evaluateBinaryOperation` is the model's lazy logic,
same-type guard and operator switch -/
theorem evaluateBinaryOperation_is_model (env : Env σ) (st : Store) (vis : Map Nat) (op : BinOp) (l r : Expr) (w : W σ) :
    runBinaryOperation evalIR env st vis op l r w = some (binModel env st vis op l r w) := by
  unfold runBinaryOperation
  rw [show 1 + need l + need r = (need l + need r) + 1 by omega]
  show fromFlow (step evalIR (host env st vis) (run evalIR (host env st vis) (need l + need r)) "evaluateBinaryOperation" _ w) = _
  rw [evaluateBinaryOperation_step env st vis op _ l r w
    (fun w' => run_is_model env st vis _ l w' (by omega)) (fun w' => run_is_model env st vis _ r w' (by omega)),
    fromFlow_toFlow, binModel_eq]

/-- `xor` as translated is exclusive or -/
theorem xor_is_model (a b : Bool) :
    pureRun evalIR "xor" [.bool a, .bool b] = .val (.bool ((a && !b) || (!a && b))) := by
  cases a <;> cases b <;>
    simp [pureRun, pureStep, lookupDef, evalIR, xor_body, evalPure, evalList, bindFrom, lookupVar, unPrim, binPrim, eqPrim, nePrim, isNil, prim]

/-- the operator codes of the interpreter's `==` on operator constants are injective: it is equality -/
theorem opCode_eq (a b : BinOp) : (opCode a == opCode b) = (a == b) := by
  cases a <;> cases b <;> rfl

/-! ### non-vacuity: the interpreter computes on concrete expressions -/

/-- a host with one function `f` that counts its calls in the host state and returns `true` -/
def countingEnv : Env Nat :=
  { call := fun _ _ n => (.ok (some (.bool true)), n + 1), knows := fun f => f == "f", cmd := fun _ _ n => (.done, n) }

def w0 : W Nat := { host := 0, rng := default }

/-- `false and f()` is false and `f` is not called (the host state is unchanged): computed by the interpreter on the
translated code, not through the theorems above -/
example : runEval evalIR countingEnv [] [] (.bin .and (.lit (.bool false)) (.call "f" [])) w0 = some (.ok (.bool false), w0) := by
  rfl

/-- `true and f()` calls `f` once -/
example : runEval evalIR countingEnv [] [] (.bin .and (.lit (.bool true)) (.call "f" [])) w0
    = some (.ok (.bool true), { w0 with host := 1 }) := by
  rfl

/-- `1 + "a"` is a type error -/
example : runEval evalIR countingEnv [] [] (.bin .add (.lit (.num (F64.ofInt 1))) (.lit (.str "a"))) w0
    = some (.err .illTyped, w0) := by
  rfl

/-- `-x` with x = 2 in the store -/
example : runEval evalIR countingEnv [("x", .num (F64.ofInt 2))] [] (.neg (.var "x")) w0
    = some (.ok (.num (F64.ofInt 2).neg), w0) := by
  rfl

/-- `f(y, f())` with `y` unknown: the first argument fails, the second is not evaluated, `f` is not called -/
example : runEval evalIR countingEnv [] [] (.call "f" [.var "y", .call "f" []]) w0 = some (.err .unknownVar, w0) := by
  rfl

/-- an `unsupported` node has no value: the interpreter is stuck on it, so a theorem about it cannot hold vacuously -/
example : runEval [("evaluateExpression", 3, [.unsupported "x"])] countingEnv [] [] .null w0 = none := by
  rfl

end Ysgo.C02IR
