import Ysgo.Generated.ConvIR
/-!
# C13 — translated facts: the markup replacement processors, regenerated from the source on every run

`tools/convir` translates (go/ast) `getProcessor`, `processNoMarkup`, `processSelect`, `processPlural`,
`processOrdinal`, `replacePlaceholders` (markup/processors.go) and the two methods they call, `Value.toString` and
`attributeMarker.GetProperty` (markup/parse_result.go), into terms of the imperative IR of `Spec/ConvIR.lean`
(`Generated/ConvIR.lean`). The theorems prove that the code as translated just now computes, for every property list,
what the hand-written model computes: `Markup.getProp`, `PVal.toStr`, `Markup.replacePlaceholders` and the four branches
of `Markup.process` (about which C13 proves `select_replaces`, `plural_picks`, `ordinal_table`, …), and that
`getProcessor` maps each name to the processor that behaves as `process name`.

Trusted base: the translator, the interpreter (`Spec/ConvIR.lean`) and the primitives, interpreted as the model's
functions: `strings.ReplaceAll` ↦ `Markup.replaceAll` and `strings.Count` ↦ `ConvIR.countSub` (both for a non-empty
pattern; `countSub_pct` ties the latter to the model's `contains '%'`), string `+` ↦ `++`, `strconv.Itoa` ↦ `F64.itoa`,
`fmt.Sprint`/`int`/`float64` as in `Props/C19IR.lean`, Go's `%` on ints ↦ `Int.tmod`. A `markup.Value` is the model's
`PVal`: reading a field the `ValueType` does not select is stuck, so the translated code is proved never to do so.

`processOrdinal`: Go's remainder truncates towards zero, the model's `ordinalCase` uses the Euclidean `%`; they agree for
`n ≥ 0`, which is what the parser produces (`parseInteger` reads digits only), hence the hypothesis `hnn`. For a negative
integer property value (not constructible through `ParseMarkup`) the Go code and the model would pick different cases
(`-9`: Go "other", model "one").
-/
namespace Ysgo.C13IR
open Ysgo Ysgo.ConvIR Ysgo.Generated.Conv Ysgo.Markup
set_option linter.unusedSimpArgs false

abbrev src := convSrc

theorem lk_toStr : lookupDef src ".toString" = some d_m_toString := rfl
theorem lk_rp : lookupDef src "replacePlaceholders" = some d_replacePlaceholders := rfl

theorem pvalToString_any (user : String → List V → ER) (p : PVal) :
    step src user ".toString" [.pval p] = .ok [.s p.toStr] := by
  cases p with
  | int i => conv_eval [lk_toStr, d_m_toString, PVal.toStr]
  | float x =>
    by_cases h : F64.eq x (F64.ofInt (F64.toInt64 x)) = true <;>
    conv_eval [lk_toStr, d_m_toString, PVal.toStr, F64.display, h]
  | str s => conv_eval [lk_toStr, d_m_toString, PVal.toStr]
  | bool b => cases b <;> conv_eval [lk_toStr, d_m_toString, PVal.toStr]

theorem countSub_pct (l : List Char) : countSub l ['%'] = 0 ↔ l.contains '%' = false := by
  unfold countSub
  induction l with
  | nil => simp [countAux]
  | cons c cs ih =>
    by_cases h : c = '%'
    · subst h; simp [countAux, List.isPrefixOf]
    · have h' : ('%' == c) = false := by simp [Ne.symm h]
      simp [countAux, List.isPrefixOf, h', ih, h, Ne.symm h]

theorem bs_append_ne (v : String) : ("\\" ++ v = "") = False := by
  simp only [eq_iff_iff, iff_false]
  intro h
  have := congrArg String.length h
  simp [String.length_append] at this

theorem bs_append_toList (v : String) : ("\\" ++ v).toList = '\\' :: v.toList := by
  simp [String.toList_append]

theorem replacePlaceholders_any (user : String → List V → ER) (r v : String) :
    step src user "replacePlaceholders" [.s r, .s v] = .ok [.s (Markup.replacePlaceholders r v)] := by
  by_cases hc : countSub r.toList ['%'] = 0
  · have hc' : '%' ∉ r.toList := by simpa using (countSub_pct _).mp hc
    conv_eval [lk_rp, d_replacePlaceholders, Markup.replacePlaceholders, hc, hc']
  · have hc' : '%' ∈ r.toList := by
      apply Classical.byContradiction; intro h
      exact hc ((countSub_pct _).mpr (by simpa using h))
    have hcs : ((0 : Int) = ↑(countSub r.toList ['%'])) = False := by
      simp only [eq_iff_iff, iff_false]; omega
    conv_eval [lk_rp, d_replacePlaceholders, Markup.replacePlaceholders, hc, hc', hcs, bs_append_ne, bs_append_toList]
theorem lk_gp : lookupDef src ".GetProperty" = some d_m_GetProperty := rfl

/-- the body of the loop of a function that starts with a `range` statement -/
def loopBody : St → St
  | .seq (.range _ _ _ b) _ => b
  | _ => .skip

/-- `GetProperty` is a loop over `am.properties` followed by `return Value{}, false` -/
theorem gp_shape : d_m_GetProperty.body =
    .seq (.range 2 3 (.field (.var 0) "properties") (loopBody d_m_GetProperty.body)) (.ret2 (.zero "Value") (.litB false)) := rfl

/-- the environment after a loop whose body went through without changing it -/
def loopEnv (k v : Nat) : List (String × PVal) → Nat → ConvIR.Env → ConvIR.Env
  | [], _, env => env
  | p :: ps, idx, env => loopEnv k v ps (idx + 1) ((env.put k (.i idx)).put v (.prop p.1 p.2))

/-- a loop that looks for the first property called `name` -/
theorem loop_find (body : ConvIR.Env → Flow) (name : String)
    (hb : ∀ (env : ConvIR.Env) (idx : Nat) (n : String) (pv : PVal), env.get 1 = some (.s name) →
      body ((env.put 2 (.i idx)).put 3 (.prop n pv)) =
        if n = name then .ret [.pval pv, .b true] else .next ((env.put 2 (.i idx)).put 3 (.prop n pv))) :
    ∀ (props : List (String × PVal)) (idx : Nat) (env : ConvIR.Env), env.get 1 = some (.s name) →
    rangeLoop body 2 3 props idx env =
      (match getProp props name with
       | some v => .ret [.pval v, .b true]
       | none => .next (loopEnv 2 3 props idx env)) := by
  intro props
  induction props with
  | nil => intro idx env _; simp [rangeLoop, getProp, loopEnv]
  | cons p ps ih =>
    intro idx env h
    have h1 : (((env.put 2 (.i idx)).put 3 (.prop p.1 p.2)).get 1) = some (.s name) := by
      simpa [Env.get, Env.put] using h
    by_cases hp : p.1 = name
    · rw [rangeLoop, hb env idx p.1 p.2 h]; simp [hp, getProp]
    · rw [rangeLoop, hb env idx p.1 p.2 h]; simp [hp, getProp, ih (idx + 1) _ h1, loopEnv]

theorem gp_body (user : String → List V → ER) (name : String) (env : ConvIR.Env) (idx : Nat) (n : String) (pv : PVal)
    (h : env.get 1 = some (.s name)) :
    execS user (loopBody d_m_GetProperty.body) ((env.put 2 (.i idx)).put 3 (.prop n pv)) =
      if n = name then .ret [.pval pv, .b true] else .next ((env.put 2 (.i idx)).put 3 (.prop n pv)) := by
  simp only [Env.get] at h
  by_cases hp : n = name
  · conv_eval [d_m_GetProperty, loopBody, h, hp]
  · have hp' : ¬ name = n := fun e => hp e.symm
    conv_eval [d_m_GetProperty, loopBody, h, hp, hp']

theorem getProperty_any (user : String → List V → ER) (props : List (String × PVal)) (name : String) :
    step src user ".GetProperty" [.marker props, .s name] =
      .ok (match getProp props name with | some v => [.pval v, .b true] | none => [.pval (.int 0), .b false]) := by
  have hl := loop_find (fun e => execS user (loopBody d_m_GetProperty.body) e) name (gp_body user name) props 0
    [(0, .marker props), (1, .s name)] rfl
  have hn : d_m_GetProperty.nparams = 2 := rfl
  simp only [step, lk_gp]
  rw [gp_shape, hn]
  cases hgp : getProp props name <;> rw [hgp] at hl <;> conv_eval [hl]

theorem lk_getProcessor : lookupDef src "getProcessor" = some d_getProcessor := rfl
theorem lk_noMarkup : lookupDef src "processNoMarkup" = some d_processNoMarkup := rfl
theorem lk_select : lookupDef src "processSelect" = some d_processSelect := rfl
theorem lk_plural : lookupDef src "processPlural" = some d_processPlural := rfl
theorem lk_ordinal : lookupDef src "processOrdinal" = some d_processOrdinal := rfl

/-- a `(string, error)` result: `some none` is an error -/
def strOut : ER → Option (Option String)
  | .ok [.s t, .nil] => some (some t)
  | .ok [_, .err] => some none
  | _ => none

theorem processNoMarkup_any (user : String → List V → ER) (props : List (String × PVal)) :
    strOut (step src (step src user) "processNoMarkup" [.marker props]) = some (process "nomarkup" props) := by
  cases hc : getProp props "contents" <;>
  conv_eval [lk_noMarkup, d_processNoMarkup, ↓getProperty_any, ↓pvalToString_any, process, strOut, hc]

theorem processSelect_any (user : String → List V → ER) (props : List (String × PVal)) :
    strOut (step src (step src user) "processSelect" [.marker props]) = some (process "select" props) := by
  cases hv : getProp props "value" with
  | none => conv_eval [lk_select, d_processSelect, ↓getProperty_any, ↓pvalToString_any, ↓replacePlaceholders_any, process, strOut, hv]
  | some v =>
    cases hr : getProp props v.toStr <;>
    conv_eval [lk_select, d_processSelect, ↓getProperty_any, ↓pvalToString_any, ↓replacePlaceholders_any, process, strOut, hv, hr]

theorem processPlural_any (user : String → List V → ER) (props : List (String × PVal)) :
    strOut (step src (step src user) "processPlural" [.marker props]) = some (process "plural" props) := by
  cases hv : getProp props "value" with
  | none => conv_eval [lk_plural, d_processPlural, ↓getProperty_any, ↓pvalToString_any, ↓replacePlaceholders_any, process, strOut, hv]
  | some v =>
    cases v with
    | int i =>
      by_cases h1 : i = 1
      · cases hr : getProp props "one" <;>
        conv_eval [lk_plural, d_processPlural, ↓getProperty_any, ↓pvalToString_any, ↓replacePlaceholders_any, process, strOut, hv, h1, hr]
      · cases hr : getProp props "other" <;>
        conv_eval [lk_plural, d_processPlural, ↓getProperty_any, ↓pvalToString_any, ↓replacePlaceholders_any, process, strOut, hv, h1, hr]
    | float x =>
      cases hr : getProp props "other" <;>
      conv_eval [lk_plural, d_processPlural, ↓getProperty_any, ↓pvalToString_any, ↓replacePlaceholders_any, process, strOut, hv, hr]
    | str x =>
      conv_eval [lk_plural, d_processPlural, ↓getProperty_any, ↓pvalToString_any, ↓replacePlaceholders_any, process, strOut, hv]
    | bool x =>
      conv_eval [lk_plural, d_processPlural, ↓getProperty_any, ↓pvalToString_any, ↓replacePlaceholders_any, process, strOut, hv]

theorem tmod_nonneg (n k : Int) (h : 0 ≤ n) : Int.tmod n k = n % k := Int.tmod_eq_emod_of_nonneg h

theorem processOrdinal_any (user : String → List V → ER) (props : List (String × PVal))
    (hnn : ∀ n, getProp props "value" = some (.int n) → 0 ≤ n) :
    strOut (step src (step src user) "processOrdinal" [.marker props]) = some (process "ordinal" props) := by
  cases hv : getProp props "value" with
  | none => conv_eval [lk_ordinal, d_processOrdinal, ↓getProperty_any, ↓pvalToString_any, ↓replacePlaceholders_any, process, strOut, hv]
  | some v =>
    cases v with
    | int n =>
      have h0 := hnn n hv
      cases hr : getProp props (ordinalCase n) <;>
      by_cases a1 : n % 10 = 1 <;> by_cases b1 : n % 100 = 11 <;> by_cases a2 : n % 10 = 2 <;> by_cases b2 : n % 100 = 12 <;>
        by_cases a3 : n % 10 = 3 <;> by_cases b3 : n % 100 = 13 <;>
      first
      | (exfalso; omega)
      | (simp [ordinalCase, a1, b1, a2, b2, a3, b3] at hr
         conv_eval [lk_ordinal, d_processOrdinal, ↓getProperty_any, ↓pvalToString_any, ↓replacePlaceholders_any, process, strOut, hv,
          tmod_nonneg n _ h0, ordinalCase, a1, b1, a2, b2, a3, b3, hr])
    | float x =>
      conv_eval [lk_ordinal, d_processOrdinal, ↓getProperty_any, ↓pvalToString_any, ↓replacePlaceholders_any, process, strOut, hv]
    | str x =>
      conv_eval [lk_ordinal, d_processOrdinal, ↓getProperty_any, ↓pvalToString_any, ↓replacePlaceholders_any, process, strOut, hv]
    | bool x =>
      conv_eval [lk_ordinal, d_processOrdinal, ↓getProperty_any, ↓pvalToString_any, ↓replacePlaceholders_any, process, strOut, hv]

theorem getProcessor_any (user : String → List V → ER) (name : String) :
    step src user "getProcessor" [.s name] =
      .ok [if name = "nomarkup" then .fn "processNoMarkup" else if name = "select" then .fn "processSelect"
           else if name = "plural" then .fn "processPlural" else if name = "ordinal" then .fn "processOrdinal" else .nil] := by
  by_cases h1 : name = "nomarkup"
  · subst h1; conv_eval [lk_getProcessor, d_getProcessor]
  by_cases h2 : name = "select"
  · subst h2; conv_eval [lk_getProcessor, d_getProcessor]
  by_cases h3 : name = "plural"
  · subst h3; conv_eval [lk_getProcessor, d_getProcessor]
  by_cases h4 : name = "ordinal"
  · subst h4; conv_eval [lk_getProcessor, d_getProcessor]
  conv_eval [lk_getProcessor, d_getProcessor, h1, h2, h3, h4]

/-! ## The statements over `run` -/

/-- **`attributeMarker.GetProperty` is the model's `getProp`** (the first property of that name; `Value{}, false` when
there is none) -/
theorem getProperty_is_model (props : List (String × PVal)) (name : String) :
    run src ".GetProperty" [.marker props, .s name] =
      .ok (match getProp props name with | some v => [.pval v, .b true] | none => [.pval (.int 0), .b false]) :=
  getProperty_any _ props name

/-- **`markup.Value.toString` is the model's `PVal.toStr`** -/
theorem pvalToString_is_model (p : PVal) : run src ".toString" [.pval p] = .ok [.s p.toStr] := pvalToString_any _ p

/-- **`replacePlaceholders` is the model's**, for all strings -/
theorem replacePlaceholders_is_model (r v : String) :
    run src "replacePlaceholders" [.s r, .s v] = .ok [.s (Markup.replacePlaceholders r v)] :=
  replacePlaceholders_any _ r v

theorem processNoMarkup_is_model (props : List (String × PVal)) :
    strOut (run src "processNoMarkup" [.marker props]) = some (process "nomarkup" props) := processNoMarkup_any _ props

/-- **`processSelect` is `process "select"`**, for all property lists (`some none` = error) -/
theorem processSelect_is_model (props : List (String × PVal)) :
    strOut (run src "processSelect" [.marker props]) = some (process "select" props) := processSelect_any _ props

/-- **`processPlural` is `process "plural"`**, for all property lists -/
theorem processPlural_is_model (props : List (String × PVal)) :
    strOut (run src "processPlural" [.marker props]) = some (process "plural" props) := processPlural_any _ props

/-- **`processOrdinal` is `process "ordinal"`**, for all property lists whose integer `value` has no sign -/
theorem processOrdinal_is_model (props : List (String × PVal))
    (hnn : ∀ n, getProp props "value" = some (.int n) → 0 ≤ n) :
    strOut (run src "processOrdinal" [.marker props]) = some (process "ordinal" props) := processOrdinal_any _ props hnn

/-- **`getProcessor` is the model's table**: a name is a replacement marker exactly when `getProcessor` returns a
processor, and that processor computes `process name` -/
theorem getProcessor_is_model (name : String) (props : List (String × PVal))
    (hnn : ∀ n, getProp props "value" = some (.int n) → 0 ≤ n) :
    (isReplacement name = false ∧ run src "getProcessor" [.s name] = .ok [.nil]) ∨
    (isReplacement name = true ∧ ∃ f, run src "getProcessor" [.s name] = .ok [.fn f] ∧
      strOut (run src f [.marker props]) = some (process name props)) := by
  have hg := getProcessor_any (step src (step src (step src (fun _ _ => .stuck)))) name
  by_cases h1 : name = "nomarkup"
  · subst h1; exact Or.inr ⟨by decide, _, hg, processNoMarkup_is_model props⟩
  by_cases h2 : name = "select"
  · subst h2; exact Or.inr ⟨by decide, _, hg, processSelect_is_model props⟩
  by_cases h3 : name = "plural"
  · subst h3; exact Or.inr ⟨by decide, _, hg, processPlural_is_model props⟩
  by_cases h4 : name = "ordinal"
  · subst h4; exact Or.inr ⟨by decide, _, hg, processOrdinal_is_model props hnn⟩
  · refine Or.inl ⟨by simp [isReplacement, h1, h2, h3, h4], ?_⟩
    rw [show run src "getProcessor" [.s name] = _ from hg]; simp [h1, h2, h3, h4]

/-! ## Non-vacuity -/

/-- the translated processors run: concrete results through the theorems -/
example : strOut (run src "processOrdinal" [.marker [("value", .int 2), ("two", .str "%nd"), ("other", .str "%th")]]) = some (some "2nd") := by
  rw [processOrdinal_is_model _ (by intro n h; simp [getProp] at h; omega)]; decide +kernel
example : strOut (run src "processSelect" [.marker [("value", .str "f"), ("m", .str "he"), ("f", .str "she \\%")]]) = some (some "she %") := by
  rw [processSelect_is_model]; decide +kernel
example : strOut (run src "processPlural" [.marker [("value", .int 1), ("one", .str "% apple"), ("other", .str "% apples")]]) =
    some (some "1 apple") := by
  rw [processPlural_is_model]; decide +kernel
example : strOut (run src "processPlural" [.marker [("value", .str "x"), ("other", .str "% apples")]]) = some none := by
  rw [processPlural_is_model]; decide +kernel
example : run src "getProcessor" [.s "plural"] = .ok [.fn "processPlural"] := getProcessor_any _ _
example : run src "getProcessor" [.s "b"] = .ok [.nil] := getProcessor_any _ _

/-- the interpreter is not trivially agreeable: the same two `ReplaceAll` in the other order give another string; the
field of a `markup.Value` that its type does not select has no value -/
example : (match prim "strings.ReplaceAll" [.s "a\\%b", .s "%", .s "V"] with | some (.ok [.s t]) => some t | _ => none) = some "a\\Vb" := by
  decide +kernel
example : getField (.pval (.float (F64.ofInt 1))) "IntegerValue" = .stuck := rfl

end Ysgo.C13IR
