import Ysgo.Generated.PackageState
import Ysgo.Model.Runner
/-!
# C18 — Independent runners share no mutable state

`non_interference`: in a configuration of runners (each with its own program), any interleaving of their operations
gives each runner exactly the trace, and the final state, of its solo run on the projection of the schedule. The theorem
is easy; its hypothesis is the SHAPE of the model — a step reads and writes one component only — and that shape is
tied to the code by (a) the regenerated fact below: the hand-written packages have no writable package-level state, and
(b) the `concurrent` stream (traces under true goroutines and the race detector equal the sequential ones).
Not exhibitable by the model: the race detector's verdict itself, and the ANTLR runtime's internally synchronised caches.
-/
namespace Ysgo.C18
open Ysgo
set_option linter.unusedSimpArgs false

section generic
variable {α ι β : Type} (step : α → ι → α × β)

/-- one operation of the schedule: component `i` performs a step with input `a`; the others are untouched -/
def stepAt (xs : List α) (i : Nat) (a : ι) : List α × Option β :=
  match xs[i]? with
  | none => (xs, none)
  | some x => ((xs.set i (step x a).1), some (step x a).2)

/-- run a whole schedule; the trace records which component produced which output -/
def run : List α → List (Nat × ι) → List α × List (Nat × β)
  | xs, [] => (xs, [])
  | xs, (i, a) :: rest =>
    match stepAt step xs i a with
    | (xs', some b) => let (xs'', tr) := run xs' rest; (xs'', (i, b) :: tr)
    | (xs', none) => run xs' rest

/-- the solo run of one component -/
def solo : α → List ι → α × List β
  | x, [] => (x, [])
  | x, a :: rest => let (x', tr) := solo (step x a).1 rest; (x', (step x a).2 :: tr)

def proj (sched : List (Nat × ι)) (i : Nat) : List ι := sched.filterMap (fun p => if p.1 = i then some p.2 else none)
def projTrace (tr : List (Nat × β)) (i : Nat) : List β := tr.filterMap (fun p => if p.1 = i then some p.2 else none)

/-- C18.1 `non_interference` (generic form): for every schedule, the trace and the final state of component `i` inside
the interleaved execution are those of its solo run on the projection of the schedule to `i` -/
theorem non_interference_generic :
    ∀ (sched : List (Nat × ι)) (xs : List α) (i : Nat) (x : α), xs[i]? = some x →
      (run step xs sched).1[i]? = some (solo step x (proj sched i)).1 ∧
      projTrace (run step xs sched).2 i = (solo step x (proj sched i)).2
  | [], xs, i, x, h => by simp [run, solo, proj, projTrace, h]
  | (j, a) :: rest, xs, i, x, h => by
    unfold run stepAt
    cases hj : xs[j]? with
    | none =>
      simp only
      have hne : j ≠ i := by intro e; subst e; rw [h] at hj; cases hj
      have ih := non_interference_generic rest xs i x h
      simpa [proj, hne] using ih
    | some y =>
      simp only
      by_cases hji : j = i
      · subst hji
        rw [h] at hj; cases hj
        have hlen : j < xs.length := by
          rcases Nat.lt_or_ge j xs.length with h' | h'
          · exact h'
          · simp [List.getElem?_eq_none h'] at h
        have hset : (xs.set j (step x a).1)[j]? = some (step x a).1 := by
          simp [List.getElem?_set, hlen]
        have ih := non_interference_generic rest (xs.set j (step x a).1) j (step x a).1 hset
        cases hr : run step (xs.set j (step x a).1) rest with
        | mk xs'' tr =>
          rw [hr] at ih
          simp only [proj, List.filterMap_cons, if_true, solo, projTrace] at ih ⊢
          cases hs : solo step (step x a).1 (List.filterMap (fun p => if p.1 = j then some p.2 else none) rest) with
          | mk x' tr' =>
            rw [hs] at ih
            simp only at ih ⊢
            exact ⟨ih.1, by rw [ih.2]⟩
      · have hset : (xs.set j (step y a).1)[i]? = some x := by
          rw [List.getElem?_set_ne hji]; exact h
        have ih := non_interference_generic rest (xs.set j (step y a).1) i x hset
        cases hr : run step (xs.set j (step y a).1) rest with
        | mk xs'' tr =>
          rw [hr] at ih
          simp only [proj, List.filterMap_cons, hji, if_false, projTrace] at ih ⊢
          exact ih

end generic

/-- a configuration: each runner with its own program -/
abbrev Cfg (σ π : Type) := List (Program × R σ π)

/-- one `Next(choice)` of a runner of the configuration -/
def nextStep {σ π μ : Type} (env : Env σ) (mk : Markup π μ) (fuel : Nat) (x : Program × R σ π) (c : Nat) :
    (Program × R σ π) × NextRes μ :=
  ((x.1, (x.2.next env mk x.1 fuel c).1), (x.2.next env mk x.1 fuel c).2)

/-- C18.1 `non_interference` for dialogue runners: any interleaving of `Next` calls on distinct runners gives each
runner exactly the trace it produces when run alone -/
theorem non_interference {σ π μ : Type} (env : Env σ) (mk : Markup π μ) (fuel : Nat) (cfg : Cfg σ π)
    (sched : List (Nat × Nat)) (i : Nat) (x : Program × R σ π) (h : cfg[i]? = some x) :
    (run (nextStep env mk fuel) cfg sched).1[i]? = some (solo (nextStep env mk fuel) x (proj sched i)).1 ∧
    projTrace (run (nextStep env mk fuel) cfg sched).2 i = (solo (nextStep env mk fuel) x (proj sched i)).2 :=
  non_interference_generic (nextStep env mk fuel) sched cfg i x h

/-- C18.2 regenerated fact: the hand-written packages of the repository hold no writable package-level state — nothing
assigns to, indexes into, deletes from or takes the address of a package-level variable, and every package-level
variable is a compiled regular expression (safe for concurrent use), a `reflect.Type` (immutable) or a map literal
(read-only, given that there is no write) (`tools/pkgstate`, re-run on every check; a new mutable global, or a global of a
kind whose mutability cannot be judged syntactically, breaks this theorem) -/
theorem no_mutable_package_state :
    Generated.packageWrites = [] ∧ Generated.packageAliases = [] ∧
    Generated.packageVarKinds.all (fun p => p.2 == "regexp" || p.2 == "reflect.Type" || p.2 == "map-literal") = true := by
  decide

/-- non-vacuity: two components stepped in an interleaving -/
example : (run (fun (x : Nat) (a : Nat) => (x + a, x)) [10, 20] [(0, 1), (1, 5), (0, 2)]).1 = [13, 25] := by decide

end Ysgo.C18
