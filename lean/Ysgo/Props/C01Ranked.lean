import Ysgo.Lemmas.RankedNext
import Ysgo.Props.C01Fuel
/-!
# C01.3 `fuel_suffices`, generalised: `Next` always returns when the non-yielding jumps are well-founded

`Fuel.Productive p` (every node body starts with a line or an option group, `Props/C01Fuel.lean`) is far stronger than
what `Next` of `runner.go` needs: `A: <<jump B>>`, `B: a line` terminates in Go. `Ranked.Ranked p rk`
(`Model/Ranked.lean`, a `Bool`): `rk : String → Nat` on node titles strictly decreases along every jump that can be
executed before the node has yielded anything — every *early* `jump` of a node body (reachable from the start of the
body without first passing a line, an option group or another jump at the same or an enclosing level) has a literal
target, and if that target is a node its rank is smaller. An early jump by computed expression is refused.

* `fuel_suffices_ranked`: for a ranked program, from **any** runner state `r`, fuel
  `Ranked.boundFrom p rk r = Fuel.msr r + (maxRank + 1) * maxEarly p + 1` is enough, where `maxEarly p` is the largest
  number of iterations a node can cost before it yields or jumps (`1 + earlyBody`, maximised over the nodes);
* `fuel_suffices_ranked_reachable`: from every state reachable from `R.init` / `R.restore` (`Fuel.Reach`), fuel
  `Ranked.rankedBound p rk = maxNode p + (maxRank + 1) * maxEarly p + 1` is enough — it depends on the program (and `rk`) only;
* `ranked_of_productive`: `Productive p → Ranked p (fun _ => 0)`; for such a program `maxRank = 0` and `maxEarly ≤ 1`,
  so the two bounds are `Fuel.bound r` and `Fuel.progBound p` and the theorems `fuel_suffices`, `fuel_suffices_reachable`
  of `C01Fuel` are corollaries with unchanged statements (`fuel_suffices_of_ranked`, `fuel_suffices_reachable_of_ranked`);
* `rankOf_sound`: the executable checker `Ranked.rankOf` only returns rank functions that make the program ranked;
  `fuelFor_sound`: the fuel the driver picks with `Ranked.fuelFor` is never exhausted from a reachable state;
* necessity: `jump_cycle_never_returns` (two nodes jumping to each other exhaust every fuel), and neither that program
  nor `Fuel.loopA` is ranked by any rank function.

Not proved: completeness of the checker (`Ranked p rk → rankOf p ≠ none`); it is only exercised on examples.
-/
namespace Ysgo.C01
open Ysgo Ysgo.Fuel Ysgo.Ranked
set_option linter.unusedSimpArgs false

variable {σ π μ : Type}

/-- `Productive` is the special case of `Ranked` where every rank is 0 -/
theorem ranked_of_productive (p : Program) (hp : Productive p = true) : Ranked p (fun _ => 0) = true :=
  Ranked.ranked_of_productive hp

/-- C01.3 `fuel_suffices` for ranked programs: every host, every markup parser, every runner state (reachable or not),
every argument: `Next` with fuel ≥ `boundFrom p rk r` never runs out of fuel -/
theorem fuel_suffices_ranked (env : Env σ) (mk : Markup π μ) (p : Program) (rk : String → Nat) (hr : Ranked p rk = true)
    (r : R σ π) (c : Nat) : ∀ f, boundFrom p rk r ≤ f → (r.next env mk p f c).2 ≠ .fuel :=
  fun f hf => next_fuel_ranked env mk p rk hr c f r hf

/-- … from every state reachable from `R.init p` / `R.restore p` the bound depends on the program and `rk` only:
`rankedBound p rk = maxNode p + (maxRank rk p + 1) * maxEarly p + 1` -/
theorem fuel_suffices_ranked_reachable (env : Env σ) (mk : Markup π μ) (p : Program) (rk : String → Nat)
    (hr : Ranked p rk = true) (r : R σ π) (c : Nat) (hreach : Reach p r) :
    ∀ f, rankedBound p rk ≤ f → (r.next env mk p f c).2 ≠ .fuel := by
  intro f hf
  have := reach_msr hreach
  refine next_fuel_ranked env mk p rk hr c f r ?_
  unfold rankedBound at hf
  omega

/-- for a productive program ranked by 0 the two bounds are (at most) those of `C01Fuel` -/
theorem boundFrom_of_productive (p : Program) (hp : Productive p = true) (r : R σ π) :
    boundFrom p (fun _ => 0) r ≤ Fuel.bound r := by
  have h1 := maxEarly_of_productive hp
  unfold boundFrom Fuel.bound
  rw [maxRank_zero, Nat.zero_add, Nat.one_mul]
  omega

theorem rankedBound_of_productive (p : Program) (hp : Productive p = true) : rankedBound p (fun _ => 0) ≤ progBound p := by
  have h1 := maxEarly_of_productive hp
  unfold rankedBound progBound
  rw [maxRank_zero, Nat.zero_add, Nat.one_mul]
  omega

/-- `C01Fuel.fuel_suffices` (same statement, same bound `Fuel.bound r`) as a corollary of the ranked theorem -/
theorem fuel_suffices_of_ranked (env : Env σ) (mk : Markup π μ) (p : Program) (hp : Productive p = true) (r : R σ π)
    (c : Nat) : ∀ f, Fuel.bound r ≤ f → (r.next env mk p f c).2 ≠ .fuel :=
  fun f hf => fuel_suffices_ranked env mk p _ (ranked_of_productive p hp) r c f
    (Nat.le_trans (boundFrom_of_productive p hp r) hf)

/-- `C01Fuel.fuel_suffices_reachable` (same statement, same bound `progBound p`) as a corollary of the ranked theorem -/
theorem fuel_suffices_reachable_of_ranked (env : Env σ) (mk : Markup π μ) (p : Program) (hp : Productive p = true)
    (r : R σ π) (c : Nat) (hreach : Reach p r) : ∀ f, progBound p ≤ f → (r.next env mk p f c).2 ≠ .fuel :=
  fun f hf => fuel_suffices_ranked_reachable env mk p _ (ranked_of_productive p hp) r c hreach f
    (Nat.le_trans (rankedBound_of_productive p hp) hf)

/-- `Next` returns, and leaves a reachable state -/
theorem next_returns_ranked_reachable (env : Env σ) (mk : Markup π μ) (p : Program) (rk : String → Nat)
    (hr : Ranked p rk = true) (r : R σ π) (c : Nat) (hreach : Reach p r) :
    ∃ r' o, r.next env mk p (rankedBound p rk) c = (r', .out o) ∧ Reach p r' := by
  have h := fuel_suffices_ranked_reachable env mk p rk hr r c hreach (rankedBound p rk) (Nat.le_refl _)
  have hr' := reach_next env mk p (rankedBound p rk) r c hreach
  cases hn : r.next env mk p (rankedBound p rk) c with
  | mk r' res =>
    rw [hn] at h hr'
    cases res with
    | out o => exact ⟨r', o, rfl, hr'⟩
    | fuel => exact absurd rfl h

/-- a whole session: from the initial state, whatever the arguments of the successive calls of `Next`, no call made
with fuel `rankedBound p rk` runs out of fuel -/
theorem session_never_out_of_fuel_ranked (env : Env σ) (mk : Markup π μ) (p : Program) (rk : String → Nat)
    (hr : Ranked p rk = true) (store : Store) (w : W σ) (ms : π) (r : R σ π) (hi : R.init p store w ms = some r)
    (cs : List Nat) : ∀ x, x ∈ session env mk p (rankedBound p rk) r cs → x ≠ .fuel :=
  session_no_fuel_ranked env mk p rk hr cs r (init_reach p store w ms r hi)

/-! ### the checker -/

/-- the checker only returns rank functions for which the program is ranked -/
theorem rankOf_sound (p : Program) (rk : String → Nat) (h : rankOf p = some rk) : Ranked p rk = true :=
  Ranked.rankOf_sound h

/-- the fuel picked by `Ranked.fuelFor` (what the driver uses) is never exhausted from a reachable state -/
theorem fuelFor_sound (env : Env σ) (mk : Markup π μ) (p : Program) (f0 : Nat) (h : fuelFor p = some f0)
    (r : R σ π) (c : Nat) (hreach : Reach p r) : ∀ f, f0 ≤ f → (r.next env mk p f c).2 ≠ .fuel := by
  unfold fuelFor at h
  split at h
  · rename_i hp
    simp only [Option.some.injEq] at h
    subst h
    exact fuel_suffices_reachable env mk p hp r c hreach
  · split at h
    · rename_i rk hrk
      simp only [Option.some.injEq] at h
      subst h
      exact fuel_suffices_ranked_reachable env mk p rk (rankOf_sound p rk hrk) r c hreach
    · cases h

/-! ### non-vacuity: a chain of three nodes that is ranked and not productive -/

/-- `Ranked.chain3`: A (four assignments, then `<<jump B>>`) → B (an assignment, `<<if $x>><<jump C>>`) → C (a line) -/
example : rankTable chain3 = some [("A", 2), ("B", 1), ("C", 0)] := by decide
example : (rankOf chain3).map (fun rk => [rk "A", rk "B", rk "C"]) = some [2, 1, 0] := rfl
example : Productive chain3 = false := by decide
example : Ranked chain3 (fun t => if t = "A" then 2 else if t = "B" then 1 else 0) = true := by decide
example : ∃ rk, rankOf chain3 = some rk ∧ Ranked chain3 rk = true ∧ rankedBound chain3 rk = 25 :=
  ⟨tableFn [("A", 2), ("B", 1), ("C", 0)], rfl, by decide, rfl⟩
example : fuelFor chain3 = some 25 := by decide
example : progBound chain3 = 8 := rfl
/-- the rank function must really decrease: the all-zero ranking is refused -/
example : Ranked chain3 (fun _ => 0) = false := by decide

/-- the chain is really walked inside one `Next`: with the fuel `rankedBound = 25` every call returns the line of C
(A → B → C without yielding, then C → A → B → C); the fuel `progBound chain3 = 8` of the productive case is not enough
for the first call (it takes 9 iterations) -/
example :
    let env : Env Unit := ⟨fun _ _ h => (.err .callFailed, h), fun _ => false, fun _ _ h => (.unknown, h)⟩
    let mk : Markup Unit String := ⟨fun s t => (s, .ok t)⟩
    let sh : NextRes String → String := fun x =>
      match x with | .out (.ok (.line n t _)) => n ++ ":" ++ t | .fuel => "FUEL" | _ => "other"
    ∃ r : R Unit Unit, R.init chain3 [] ⟨(), default⟩ () = some r ∧
      (session env mk chain3 25 r [0, 0, 0]).map sh = ["C:c", "C:c", "C:c"] ∧
      sh (r.next env mk chain3 8 0).2 = "FUEL" ∧ sh (r.next env mk chain3 9 0).2 = "C:c" := by
  refine ⟨_, rfl, ?_, ?_, ?_⟩ <;>
  simp [session, R.next, R.micro, poll, exec, eval, applyCtlR, chain3, Program.find, renderLine, renderElems, isOpts,
    applyAssign, firstTrue, Map.get, Map.set, Value.ty]

/-- an early jump by computed expression is refused whatever the ranks, and by the checker -/
example : rankOf computedEarly = none := rfl
example : fuelFor computedEarly = none := by decide
theorem computed_early_jump_not_ranked (rk : String → Nat) : Ranked computedEarly rk = false := by
  simp [Ranked, computedEarly, safeStmts, safeStmt, jumpOk]

/-! ### necessity: a cycle of non-yielding jumps exhausts every fuel -/

/-- `Ranked.cycleJJ` (`A: <<jump B>>`, `B: <<jump A>>`): from the body of either node, for every host, every markup
parser and every data state without a pending command, every fuel is exhausted (in Go: `Next` never returns) -/
theorem jump_cycle_never_returns (env : Env σ) (mk : Markup π μ) (c : Nat) :
    ∀ (f : Nat) (d : Data σ π) (t : String), d.pending = none → t = "A" ∨ t = "B" →
      (({ d := d, stack := [⟨[.jump (.lit (.str t))], 0⟩] } : R σ π).next env mk cycleJJ f c).2 = .fuel
  | 0, _, _, _, _ => rfl
  | f + 1, d, t, h, ht => by
    unfold R.next
    rcases ht with ht | ht
    · subst ht
      simp only [R.micro, poll, h, exec, eval, applyCtlR, cycleJJ, Program.find, List.find?, List.getElem?_cons_zero]
      simp
      exact jump_cycle_never_returns env mk c f _ "B" rfl (.inr rfl)
    · subst ht
      simp only [R.micro, poll, h, exec, eval, applyCtlR, cycleJJ, Program.find, List.find?, List.getElem?_cons_zero]
      simp
      exact jump_cycle_never_returns env mk c f _ "A" rfl (.inl rfl)

/-- … in particular from the initial state, whatever the fuel -/
theorem jump_cycle_never_returns_init (env : Env σ) (mk : Markup π μ) (store : Store) (w : W σ) (ms : π) (c f : Nat) :
    ∃ r : R σ π, R.init cycleJJ store w ms = some r ∧ (r.next env mk cycleJJ f c).2 = .fuel :=
  ⟨_, rfl, jump_cycle_never_returns env mk c f _ "B" rfl (.inr rfl)⟩

/-- the cycle is not ranked by any rank function (it would need `rk B < rk A` and `rk A < rk B`) … -/
theorem jump_cycle_not_ranked (rk : String → Nat) : Ranked cycleJJ rk = false := by
  cases h : Ranked cycleJJ rk with
  | false => rfl
  | true =>
    simp [Ranked, cycleJJ, safeStmts, safeStmt, stops, jumpOk, Program.find] at h
    omega

/-- … nor is the one-node loop of `C01Fuel.unproductive_never_returns` -/
theorem loopA_not_ranked (rk : String → Nat) : Ranked loopA rk = false := by
  simp [Ranked, loopA, safeStmts, safeStmt, stops, jumpOk, Program.find]

/-- and the checker refuses both -/
example : rankOf cycleJJ = none := rfl
example : rankOf loopA = none := rfl
example : fuelFor cycleJJ = none := by decide

/-- productive programs are accepted by the checker with all ranks 0, and the two bounds coincide -/
example : rankTable cycleAB = some [("A", 0), ("B", 0)] := by decide
example : fuelFor cycleAB = some (progBound cycleAB) := by decide
example : (rankOf cycleAB).map (rankedBound cycleAB) = some (progBound cycleAB) := rfl

end Ysgo.C01

section
open Ysgo.C01
#print axioms ranked_of_productive
#print axioms fuel_suffices_ranked
#print axioms fuel_suffices_ranked_reachable
#print axioms boundFrom_of_productive
#print axioms rankedBound_of_productive
#print axioms fuel_suffices_of_ranked
#print axioms fuel_suffices_reachable_of_ranked
#print axioms next_returns_ranked_reachable
#print axioms session_never_out_of_fuel_ranked
#print axioms rankOf_sound
#print axioms fuelFor_sound
#print axioms computed_early_jump_not_ranked
#print axioms jump_cycle_never_returns
#print axioms jump_cycle_never_returns_init
#print axioms jump_cycle_not_ranked
#print axioms loopA_not_ranked
end
