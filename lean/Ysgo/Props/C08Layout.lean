import Ysgo.Lemmas.Indent
import Ysgo.Lemmas.IndentScan
import Ysgo.Lemmas.BodyParseRT
/-!
# C08 (layout part: theorems 1, 2, 3, 6) and C01.4 — layout never changes the nesting of a body

Models: `Ysgo.Indent` (mirror of `indent_aware_lexer.go`, as repaired: NEWLINE tokens in front of blank /
whitespace-only / comment-only lines take no part in indentation tracking) and `Ysgo.BodyParse` (layout of a body
tree, the parser's view of the token stream, recursive descent for the statement structure).
-/
namespace Ysgo.C08
open Ysgo.Indent Ysgo.BodyParse

/-! ## C08.1 the indent unit and tabs versus spaces -/

/-- **C08.1** Re-indenting with any strictly monotone map that keeps column 0 leaves the token sequence unchanged:
INDENT/DEDENT placement depends only on the order relation between widths. Hence not on the indent unit
(`f = (· * k)`, `k ≥ 1`) nor on tabs versus spaces (a tab is `f = (· * 8)`). -/
theorem indent_tokens_monotone_invariant (f : Nat → Nat) (hf : ∀ a b, a < b → f a < f b) (h0 : f 0 = 0)
    (ls : List LineInfo) :
    lex (ls.map (LineInfo.mapWidth f)) = lex ls := by
  have := lexFrom_mono f (lt_iff_of_strictMono hf) h0 ls []
  simpa [lex] using this

/-- the indent unit: `k` spaces per level instead of one -/
theorem indent_unit_invisible (k : Nat) (hk : 0 < k) (ls : List LineInfo) :
    lex (ls.map (LineInfo.mapWidth (· * k))) = lex ls :=
  indent_tokens_monotone_invariant (· * k) (fun _ _ h => Nat.mul_lt_mul_of_pos_right h hk) (Nat.zero_mul k) ls

/-- non-vacuity: unit 1, unit 4 and tabs (×8) give the same tokens on a layout with nesting, and the hypothesis
`f 0 = 0` cannot be dropped (shifting everything by one column indents the top level) -/
example : lex ([0, 1, 2, 2, 1, 0, 3].map fun w => ⟨w, false, false⟩)
    = [.nl, .nl, .indent, .nl, .indent, .nl, .nl, .dedent, .nl, .dedent, .nl, .indent, .dedent, .eof] := by decide
example : lex ([0, 4, 8, 8, 4, 0, 12].map fun w => ⟨w, false, false⟩)
    = lex ([0, 1, 2, 2, 1, 0, 3].map fun w => ⟨w, false, false⟩) := by decide
example : lex ([0, 8, 16, 16, 8, 0, 24].map fun w => ⟨w, false, false⟩)
    = lex ([0, 1, 2, 2, 1, 0, 3].map fun w => ⟨w, false, false⟩) := by decide
example : lex ([0, 1].map fun w => LineInfo.mapWidth (· + 1) ⟨w, false, false⟩)
    ≠ lex ([0, 1].map fun w => ⟨w, false, false⟩) := by decide

/-! ## C08.2 blank, whitespace-only and comment-only lines -/

/-- **C08.2**, local form: any number of noise lines of any widths inserted at any one point contribute their own
NEWLINE tokens and nothing else — the tokens before and after the insertion point are those of the input without
the inserted lines (`toksFrom [] pre` are the tokens of the lines before the point, `stackAfter [] pre` the stack
there). Any number of insertions at any number of points is an iteration of this. -/
theorem blank_and_comment_lines_invisible (pre ns post : List LineInfo) (h : ∀ l ∈ ns, l.noise = true) :
    lex (pre ++ post) = toksFrom [] pre ++ lexFrom (stackAfter [] pre) post ∧
    lex (pre ++ ns ++ post)
      = toksFrom [] pre ++ List.replicate ns.length .nl ++ lexFrom (stackAfter [] pre) post := by
  constructor
  · exact lexFrom_append pre post []
  · unfold lex
    rw [List.append_assoc, lexFrom_append, lexFrom_noise_run ns post h, List.append_assoc]

/-- **C08.2**, global form: two inputs with the same non-noise lines have the same INDENT / DEDENT / EOF sequence
(the token sequence without its NEWLINE tokens) — wherever and however many noise lines each contains. -/
theorem blank_and_comment_lines_invisible_global (ls ls' : List LineInfo)
    (h : ls.filter (fun l => !l.noise) = ls'.filter (fun l => !l.noise)) :
    skeleton (lex ls) = skeleton (lex ls') := by
  unfold lex
  rw [← skeleton_lexFrom_filter ls, ← skeleton_lexFrom_filter ls', h]

/-- **C08.2**, what the parser sees, with positions: the tokens delivered to the parser for a body (each real
line's own tokens, INDENT and DEDENT in their places relative to them) are those of the real lines alone. -/
theorem noise_lines_invisible_to_parser (ps ps' : List PLine) (h : realLines ps = realLines ps') :
    lexBody ps = lexBody ps' := by
  rw [lexBody_eq_lexLines, lexBody_eq_lexLines, h]

/-- non-vacuity: a blank line at column 0 and a comment at column 9 inside an option body; without the repair (all
`noise := false`) the same input closes the body early -/
example : skeleton (lex [⟨0, false, false⟩, ⟨4, false, false⟩, ⟨0, false, true⟩, ⟨9, false, true⟩, ⟨4, false, false⟩, ⟨0, false, false⟩])
    = skeleton (lex [⟨0, false, false⟩, ⟨4, false, false⟩, ⟨4, false, false⟩, ⟨0, false, false⟩]) := by decide
example : skeleton (lex [⟨0, false, false⟩, ⟨4, false, false⟩, ⟨0, false, false⟩, ⟨9, false, false⟩, ⟨4, false, false⟩, ⟨0, false, false⟩])
    ≠ skeleton (lex [⟨0, false, false⟩, ⟨4, false, false⟩, ⟨4, false, false⟩, ⟨0, false, false⟩]) := by decide

/-! ## C08.3 line-end styles -/

/-- **C08.3** A text written with `\n`, `\r\n` or `\r` line ends (the three alternatives of the NEWLINE rule; the
indentation that follows belongs to the same token in all three) yields the same `LineInfo`s — those determined by
each line's indentation and content alone — hence the same tokens. -/
theorem line_end_style_invisible (e e' : Eol) (first : List Char) (ls : List SrcLine)
    (hfirst : ∀ c ∈ first, c ≠ '\r' ∧ c ≠ '\n') (hok : ∀ l ∈ ls, l.Ok) :
    scan (render e first ls) = ls.map SrcLine.info ∧
    scan (render e first ls) = scan (render e' first ls) ∧
    lex (scan (render e first ls)) = lex (scan (render e' first ls)) := by
  have h1 := scan_render e first ls hfirst hok
  have h2 := scan_render e' first ls hfirst hok
  exact ⟨h1, by rw [h1, h2], by rw [h1, h2]⟩

namespace LayoutEx
/-- non-vacuity: three lines (one indented with a tab and a space, one comment-only), all three styles -/
def exLines : List SrcLine :=
  [⟨[' ', ' '], ['-', '>', ' ', 'a']⟩, ⟨['\t', ' '], ['b', ' ', '/', '/', ' ', 'c']⟩, ⟨[], ['/', '/', ' ', 'c']⟩, ⟨[], []⟩]
example : ∀ l ∈ exLines, l.Ok := by
  intro l hl
  simp only [exLines, List.mem_cons, List.not_mem_nil, or_false] at hl
  rcases hl with rfl | rfl | rfl | rfl <;>
    exact ⟨by decide, by decide, by
      intro c r h
      simp only [List.cons.injEq, reduceCtorEq] at h <;> (obtain ⟨rfl, -⟩ := h; decide)⟩
example : render .crlf "x".toList exLines = "x\r\n  -> a\r\n\t b // c\r\n// c\r\n".toList := by decide
example : scan (render .crlf "x".toList exLines) = [⟨2, false, false⟩, ⟨9, true, false⟩, ⟨0, false, true⟩, ⟨0, false, true⟩] := by
  decide
example : scan (render .cr "x".toList exLines) = scan (render .lf "x".toList exLines) := by decide
end LayoutEx

/-! ## C08.6 = C01.4 layout round trip -/

/-- **C08.6, first half (`lex_layout`)** For every layout with strictly increasing widths (if-bodies indented or
not, top level indented or not, `===` at column 0) of a well-formed body (`NoAdjacentOpts`, `OptsNonEmpty`) and
every way of interspersing noise lines of any widths, the token sequence the stack-based indentation logic
delivers to the parser is the bracketed sequence `bodyToks`, which is defined by recursion on the tree and does not
mention widths at all. -/
theorem lex_layout (L : Layout) (hL : L.Ok) (body : List Stmt) (hw : wfL body = true)
    (ps : List PLine) (hps : realLines ps = layoutBody L body) :
    lexBody ps = bodyToks L body := by
  rw [lexBody_eq_lexLines, hps, lexLines_layoutBody L hL body hw]

/-- **C08.6 / C01.4 (`layout_roundtrip`, `bodyparse_roundtrip`)** … and the parser reads the tree back: option
bodies and if-clauses nest exactly as written. `parseLines` uses the fixed fuel `2·|tokens| + 2`. -/
theorem bodyparse_roundtrip (L : Layout) (hL : L.Ok) (body : List Stmt) (hw : wfL body = true)
    (ps : List PLine) (hps : realLines ps = layoutBody L body) :
    parseLines ps = some body := by
  unfold parseLines
  rw [lex_layout L hL body hw ps hps]
  exact parse_bodyToks L body hw

/-- any two layouts of one tree (different widths, different choices for if-bodies and the top level, different
noise lines) parse to the same tree -/
theorem layout_roundtrip (L L' : Layout) (hL : L.Ok) (hL' : L'.Ok) (body : List Stmt) (hw : wfL body = true)
    (ps ps' : List PLine) (hps : realLines ps = layoutBody L body) (hps' : realLines ps' = layoutBody L' body) :
    parseLines ps = parseLines ps' := by
  rw [bodyparse_roundtrip L hL body hw ps hps, bodyparse_roundtrip L' hL' body hw ps' hps']

/-- the fuel of `parse` is adequate for every token sequence: more fuel never changes the answer, so `none` is a
syntax error and never fuel exhaustion -/
theorem parse_fuel_adequate (ts : List BodyParse.Tok) (f : Nat) (hf : fuelFor ts ≤ f) :
    qStmts f ts = qStmts (fuelFor ts) ts :=
  qadeq_S hf

namespace LayoutEx
/-! non-vacuity: a tree with an if inside an option inside … , two layouts (4 per level with indented if-bodies;
widths 0,8,11,14 with flat if-bodies and an indented top level), noise lines at odd widths -/
def exBody : List Stmt :=
  [.line 1, .opts [(2, [.line 3, .ifs [.single 4, .opts [(8, [.line 9])]] [[.line 5]] (some [])]), (6, [])], .single 7]
def exL : Layout := ⟨fun d => 4 * d, true, false⟩
def exL' : Layout := ⟨fun d => if d = 0 then 0 else 3 * d + 5, false, true⟩
def exPs : List PLine :=
  [.noise 7, .real 0 (.line 1), .real 0 (.arrow 2), .noise 0, .real 4 (.line 3), .real 4 .ifT, .real 8 (.single 4),
   .real 8 (.arrow 8), .noise 3, .real 12 (.line 9), .noise 2, .real 4 .elseifT, .real 8 (.line 5), .real 4 .elseT,
   .real 4 .endifT, .real 0 (.arrow 6), .noise 40, .real 0 (.single 7), .real 0 .bodyEnd, .noise 0]
def exPs' : List PLine := (layoutBody exL' exBody).map fun p => .real p.1 p.2

example : wfL exBody = true := by decide
example : exL.Ok := ⟨rfl, fun d => by simp [exL]⟩
example : exL'.Ok := ⟨rfl, fun d => by simp only [exL']; split <;> simp <;> omega⟩
example : realLines exPs = layoutBody exL exBody := by decide
example : realLines exPs' = layoutBody exL' exBody := by decide
example : lexBody exPs =
    [.t (.line 1), .t (.arrow 2), .indent, .t (.line 3), .t .ifT, .indent, .t (.single 4), .t (.arrow 8), .indent,
     .t (.line 9), .dedent, .dedent, .t .elseifT, .indent, .t (.line 5), .dedent, .t .elseT, .t .endifT, .dedent,
     .t (.arrow 6), .t (.single 7), .t .bodyEnd] := by decide
example : (exPs'.map fun | .real w _ => w | .noise w => w) = [8, 8, 11, 11, 11, 11, 14, 11, 11, 11, 11, 8, 8, 0] := by decide
/-- the hypotheses are necessary: two adjacent option groups are read back as one group -/
example : parseLines [.real 0 (.arrow 1), .real 0 (.arrow 2), .real 0 .bodyEnd] = some [.opts [(1, []), (2, [])]] := by rfl
end LayoutEx

end Ysgo.C08
