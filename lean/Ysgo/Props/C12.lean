import Ysgo.Lemmas.Sim
/-!
# C12 — End of dialogue is absorbing

Once `Next` has reported the end, every later `Next`, with any argument, reports the end again and changes nothing
(no line, no host invocation, no variable change: the whole state is unchanged), until a snapshot is restored.
-/
namespace Ysgo.C12
open Ysgo
set_option linter.unusedSimpArgs false

variable {σ π μ : Type}

/-- the state after the end: nothing left to run, no choice expected, no command pending -/
def Ended (r : R σ π) : Prop := r.stack = [] ∧ r.waiting = none ∧ r.d.pending = none

/-- one iteration of `Next` in the ended state returns the end and leaves the state untouched, for every argument -/
theorem micro_ended (env : Env σ) (mk : Markup π μ) (p : Program) (r : R σ π) (h : Ended r) (c : Nat) :
    r.micro env mk p c = (r, some (.ok .ended)) := by
  obtain ⟨hs, hw, hp⟩ := h
  cases r with
  | mk d stack waiting =>
    simp only at hs hw hp
    subst hs hw
    simp [R.micro, poll, hp]

/-- whenever `Next` reports the end, the runner is in the ended state (end of node, or `<<stop>>` at any depth) -/
theorem ended_result_gives_ended_state (env : Env σ) (mk : Markup π μ) (p : Program) :
    ∀ (f : Nat) (r r' : R σ π) (c : Nat), r.next env mk p f c = (r', .out (.ok .ended)) → Ended r'
  | 0, r, r', c, h => by simp [R.next] at h
  | f + 1, r, r', c, h => by
    unfold R.next at h
    cases hm : r.micro env mk p c with
    | mk r1 o1 =>
      rw [hm] at h
      cases o1 with
      | none => exact ended_result_gives_ended_state env mk p f r1 r' c h
      | some out =>
        simp only [Prod.mk.injEq, NextRes.out.injEq] at h
        obtain ⟨h1, h2⟩ := h
        subst h1 h2
        -- inspect the micro step that produced `ended`
        unfold R.micro at hm
        cases hp : poll (μ := μ) r.d with
        | mk d o2 =>
          have hpend : o2 = none → d.pending = none := by
            intro ho; subst ho
            unfold poll at hp
            cases hpp : r.d.pending with
            | none => simp [hpp] at hp; rw [← hp]; exact hpp
            | some m =>
              cases m with
              | none => simp [hpp] at hp
              | some failed => cases failed <;> simp [hpp] at hp; rw [← hp]
          cases o2 with
          | some out2 =>
            -- poll itself never reports the end
            simp only [hp, Prod.mk.injEq, Option.some.injEq] at hm
            obtain ⟨_, ho⟩ := hm
            unfold poll at hp
            cases hpp : r.d.pending with
            | none => simp [hpp] at hp
            | some m =>
              cases m with
              | none => simp [hpp] at hp; rw [← hp.2] at ho; cases ho
              | some failed => cases failed <;> simp [hpp] at hp <;> (rw [← hp.2] at ho; cases ho)
          | none =>
            have hd := hpend rfl
            simp only [hp] at hm
            cases hw : r.waiting with
            | some bodies =>
              simp only [hw] at hm
              cases hb : bodies[c]? with
              | none => simp [hb] at hm
              | some b => simp only [hb] at hm; split at hm <;> simp at hm
            | none =>
              simp only [hw] at hm
              cases hs : r.stack with
              | nil =>
                simp only [hs, Prod.mk.injEq] at hm
                obtain ⟨h1, _⟩ := hm
                subst h1
                exact ⟨rfl, rfl, hd⟩
              | cons q rest =>
                simp only [hs] at hm
                cases hq : q.stmts[q.ptr]? with
                | none => simp [hq] at hm
                | some st =>
                  simp only [hq] at hm
                  -- only `stop` makes a statement report the end: it halts
                  cases st with
                  | cmd elems =>
                    cases elems with
                    | nil => simp [exec] at hm
                    | cons e es =>
                      simp only [exec] at hm
                      cases hev : evalArgs env d.store d.visited (e :: es) d.w with
                      | mk oa w =>
                        simp only [hev] at hm
                        cases oa with
                        | err k => simp at hm
                        | panic q' => simp at hm
                        | ok vs =>
                          cases vs with
                          | nil => simp at hm
                          | cons v vs' =>
                            cases v with
                            | num x => simp at hm
                            | bool b => simp at hm
                            | str name =>
                              simp only at hm
                              by_cases hn : name = "stop"
                              · simp only [hn, if_true, Prod.mk.injEq] at hm
                                obtain ⟨h1, _⟩ := hm
                                subst h1
                                exact ⟨by simp [applyCtlR], by simp [isOpts], by simpa using hd⟩
                              · simp only [hn, if_false] at hm
                                cases hc : env.cmd name vs' w.host with
                                | mk co h' => cases co <;> simp [hc] at hm
                  | line l =>
                    simp only [exec] at hm
                    cases hr : renderLine env mk d.store d.visited l d.w d.ms with
                    | mk o3 rest3 => cases o3 <;> simp [hr] at hm
                  | opts os =>
                    simp only [exec] at hm
                    cases hr : renderOptions env mk d.store d.visited os d.w d.ms with
                    | mk o3 rest3 => cases o3 <;> simp [hr] at hm
                  | set v op e =>
                    simp only [exec] at hm
                    cases hr : eval env d.store d.visited e d.w with
                    | mk o3 w3 =>
                      cases o3 with
                      | ok x =>
                        simp only [hr] at hm
                        cases ha : applyAssign op (d.store.get v) x <;> simp [ha] at hm
                      | err k => simp [hr] at hm
                      | panic q' => simp [hr] at hm
                  | jump e =>
                    simp only [exec] at hm
                    cases hr : eval env d.store d.visited e d.w with
                    | mk o3 w3 =>
                      cases o3 with
                      | ok x =>
                        cases x with
                        | str t =>
                          simp only [hr] at hm
                          cases hf : p.find t <;> simp [hf] at hm
                        | num x => simp [hr] at hm
                        | bool b => simp [hr] at hm
                      | err k => simp [hr] at hm
                      | panic q' => simp [hr] at hm
                  | ifs cs =>
                    simp only [exec] at hm
                    cases hr : firstTrue env d.store d.visited cs d.w with
                    | mk o3 w3 =>
                      cases o3 with
                      | ok ob => cases ob <;> simp [hr] at hm
                      | err k => simp [hr] at hm
                      | panic q' => simp [hr] at hm
                  | call fn args =>
                    simp only [exec] at hm
                    cases hr : evalArgs env d.store d.visited args d.w with
                    | mk o3 w3 =>
                      cases o3 with
                      | ok vs =>
                        simp only [hr] at hm
                        cases hc : callFn env d.visited fn vs w3 with
                        | mk o4 w4 => cases o4 <;> simp [hc] at hm
                      | err k => simp [hr] at hm
                      | panic q' => simp [hr] at hm
                  | empty => simp [exec] at hm

/-- C12.1 `end_absorbing`: after `Next` has reported the end, every later `Next` — any argument, any fuel —
reports the end again and the state (variables, visit counts, host state incl. its invocation log, RNG) is unchanged -/
theorem end_absorbing (env : Env σ) (mk : Markup π μ) (p : Program) (f : Nat) (r r₁ : R σ π) (c : Nat)
    (h : r.next env mk p f c = (r₁, .out (.ok .ended))) :
    ∀ (c' f' : Nat), r₁.next env mk p (f' + 1) c' = (r₁, .out (.ok .ended)) := by
  intro c' f'
  have he := ended_result_gives_ended_state env mk p f r r₁ c h
  unfold R.next
  rw [micro_ended env mk p r₁ he c']

/-- C12.2 `stop_at_any_depth_ends`: `<<stop>>` as the next statement of the top queue, whatever is stacked below it and
whatever follows it, ends the dialogue and leaves the ended state -/
theorem stop_at_any_depth_ends (env : Env σ) (mk : Markup π μ) (p : Program) (d : Data σ π) (q : SQ) (rest : List SQ)
    (hp : d.pending = none) (hq : q.stmts[q.ptr]? = some (.cmd [.lit (.str "stop")])) (c : Nat) :
    (({ d := d, stack := q :: rest, waiting := none } : R σ π).micro env mk p c).2 = some (.ok .ended) ∧
    Ended (({ d := d, stack := q :: rest, waiting := none } : R σ π).micro env mk p c).1 := by
  have hpoll : poll (μ := μ) d = (d, none) := by simp [poll, hp]
  constructor
  · simp [R.micro, hpoll, hq, exec, evalArgs, eval]
  · simp [R.micro, hpoll, hq, exec, evalArgs, eval, Ended, applyCtlR, isOpts, hp]

/-- C12.3 `restore_leaves_end`: restoring a snapshot is what leaves the ended state: the restored runner has the
body of the snapshot's node to run (and `Next` never leaves it, by `end_absorbing`) -/
theorem restore_leaves_end (p : Program) (r r' : R σ π) (s : Snapshot) (h : r.restore p s = some r') :
    ∃ n, p.find s.node = some n ∧ r'.stack = [⟨n.body, 0⟩] ∧ r'.waiting = none ∧ r'.d.pending = none := by
  unfold R.restore at h
  cases hf : p.find s.node with
  | none => simp [hf] at h
  | some n =>
    simp only [hf, Option.some.injEq] at h
    subst h
    exact ⟨n, rfl, rfl, rfl, rfl⟩

/-- non-vacuity: a one-node program `A <<stop>> B` reaches the ended state through `stop` with `B` still queued -/
example :
    let r : R Unit Unit := { d := { cur := "n", w := ⟨(), default⟩, ms := () },
                             stack := [⟨[.cmd [.lit (.str "stop")], .line ⟨[.inl "B"], none, []⟩], 0⟩], waiting := none }
    let env : Env Unit := ⟨fun _ _ h => (.err .callFailed, h), fun _ => false, fun _ _ h => (.unknown, h)⟩
    let mk : Markup Unit String := ⟨fun s t => (s, .ok t)⟩
    (r.micro env mk [] 7).2 = some (.ok .ended) ∧ Ended (r.micro env mk [] 7).1 :=
  stop_at_any_depth_ends _ _ _ _ _ _ rfl rfl 7

end Ysgo.C12
