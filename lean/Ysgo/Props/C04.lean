import Ysgo.Model.Runner
/-!
# C04 — Line/option rendering: interpolation in order, options preserved, Disabled (runner half)

The lexical half (literal text, escapes, tags, comments: what the tree holds for a written line) is `Props/C04Lex.lean`,
the display form of numbers is `Props/C04Display.lean`; the final trimming and markup pass is the markup model (C13–C15).
Here: what the runner hands to the markup pass, and what it does with option groups.
-/
namespace Ysgo.C04
open Ysgo
set_option linter.unusedSimpArgs false

variable {σ π μ : Type}

/-- specification of the interpolated text: the concatenation, in order, of the literal elements and of the display
forms of the values of the inline expressions, each evaluated exactly once, left to right, threading the world -/
inductive Rendered (env : Env σ) (st : Store) (vis : Map Nat) : List (String ⊕ Expr) → W σ → String → W σ → Prop where
  | nil (w : W σ) : Rendered env st vis [] w "" w
  | text (s : String) (es : List (String ⊕ Expr)) (w w' : W σ) (t : String) :
      Rendered env st vis es w t w' → Rendered env st vis (.inl s :: es) w (s ++ t) w'
  | expr (e : Expr) (es : List (String ⊕ Expr)) (w w₁ w' : W σ) (v : Value) (t : String) :
      eval env st vis e w = (.ok v, w₁) → Rendered env st vis es w₁ t w' →
      Rendered env st vis (.inr e :: es) w (display v ++ t) w'

/-- C04.2 `line_text_is_concat`: the text handed to the markup pass is exactly the specified concatenation -/
theorem line_text_is_concat (env : Env σ) (st : Store) (vis : Map Nat) :
    ∀ (es : List (String ⊕ Expr)) (w w' : W σ) (t : String),
      renderElems env st vis es w = (.ok t, w') ↔ Rendered env st vis es w t w'
  | [], w, w', t => by
    constructor
    · intro h; simp [renderElems] at h; obtain ⟨h1, h2⟩ := h; subst h1 h2; exact .nil w
    · intro h; cases h; simp [renderElems]
  | .inl s :: es, w, w', t => by
    have ih := line_text_is_concat env st vis es w
    constructor
    · intro h
      simp only [renderElems] at h
      cases hr : renderElems env st vis es w with
      | mk o w₂ =>
        cases o with
        | ok t₂ =>
          simp only [hr, Prod.mk.injEq, Outcome.ok.injEq] at h
          obtain ⟨h1, h2⟩ := h
          subst h1 h2
          exact .text s es w w₂ t₂ ((ih w₂ t₂).mp hr)
        | err k => simp [hr] at h
        | panic q => simp [hr] at h
    · intro h
      cases h with
      | text _ _ _ _ t₂ hrest =>
        have := (ih w' t₂).mpr hrest
        simp [renderElems, this]
  | .inr e :: es, w, w', t => by
    constructor
    · intro h
      simp only [renderElems] at h
      cases he : eval env st vis e w with
      | mk o w₁ =>
        cases o with
        | ok v =>
          simp only [he] at h
          cases hr : renderElems env st vis es w₁ with
          | mk o₂ w₂ =>
            cases o₂ with
            | ok t₂ =>
              simp only [hr, Prod.mk.injEq, Outcome.ok.injEq] at h
              obtain ⟨h1, h2⟩ := h
              subst h1 h2
              exact .expr e es w w₁ w₂ v t₂ he ((line_text_is_concat env st vis es w₁ w₂ t₂).mp hr)
            | err k => simp [hr] at h
            | panic q => simp [hr] at h
        | err k => simp [he] at h
        | panic q => simp [he] at h
    · intro h
      cases h with
      | expr _ _ _ w₁ _ v t₂ he hrest =>
        have := (line_text_is_concat env st vis es w₁ w' t₂).mpr hrest
        simp [renderElems, he, this]

/-- an error in any inline expression is an error of the whole element: nothing is shown -/
theorem failing_expression_fails_the_line (env : Env σ) (st : Store) (vis : Map Nat) (e : Expr) (es : List (String ⊕ Expr))
    (w w₁ : W σ) (k : ErrKind) (he : eval env st vis e w = (.err k, w₁)) :
    renderElems env st vis (.inr e :: es) w = (.err k, w₁) := by
  simp [renderElems, he]

/-- the display forms: booleans as True/False, strings verbatim, numbers by `F64.display` (see `Props/C04Display.lean`) -/
theorem display_by_type (b : Bool) (s : String) (x : F64) :
    display (.bool b) = (if b then "True" else "False") ∧ display (.str s) = s ∧ display (.num x) = x.display := by
  cases b <;> simp [display]

/-- C04.3 `options_preserved`: conditions never remove an option from the list or reorder it: the returned list has the
same length as the group and carries the group's tags in the same order -/
theorem options_preserved (env : Env σ) (mk : Markup π μ) (st : Store) (vis : Map Nat) :
    ∀ (os : List (LineSpec × List Stmt)) (w w' : W σ) (ms ms' : π) (r : List (μ × List String × Bool)),
      renderOptions env mk st vis os w ms = (.ok r, w', ms') →
      r.length = os.length ∧ r.map (fun x => x.2.1) = os.map (fun o => o.1.tags)
  | [], w, w', ms, ms', r, h => by
    simp [renderOptions] at h; obtain ⟨h1, _⟩ := h; subst h1; simp
  | (l, b) :: os, w, w', ms, ms', r, h => by
    simp only [renderOptions] at h
    cases hl : renderLine env mk st vis l w ms with
    | mk o rest =>
      obtain ⟨w₁, ms₁⟩ := rest
      cases o with
      | ok t =>
        simp only [hl] at h
        -- the condition
        cases hc : l.cond with
        | none =>
          simp only [hc] at h
          cases hr : renderOptions env mk st vis os w₁ ms₁ with
          | mk o₂ rest₂ =>
            obtain ⟨w₂, ms₂⟩ := rest₂
            cases o₂ with
            | ok r₂ =>
              simp only [hr, Prod.mk.injEq, Outcome.ok.injEq] at h
              obtain ⟨h1, _⟩ := h
              subst h1
              have ih := options_preserved env mk st vis os w₁ w₂ ms₁ ms₂ r₂ hr
              simp [ih.1, ih.2]
            | err k => simp [hr] at h
            | panic q => simp [hr] at h
        | some c =>
          simp only [hc] at h
          cases hev : eval env st vis c w₁ with
          | mk o₃ w₃ =>
            cases o₃ with
            | ok v =>
              cases v with
              | bool bb =>
                simp only [hev] at h
                cases hr : renderOptions env mk st vis os w₃ ms₁ with
                | mk o₂ rest₂ =>
                  obtain ⟨w₂, ms₂⟩ := rest₂
                  cases o₂ with
                  | ok r₂ =>
                    simp only [hr, Prod.mk.injEq, Outcome.ok.injEq] at h
                    obtain ⟨h1, _⟩ := h
                    subst h1
                    have ih := options_preserved env mk st vis os w₃ w₂ ms₁ ms₂ r₂ hr
                    simp [ih.1, ih.2]
                  | err k => simp [hr] at h
                  | panic q => simp [hr] at h
              | num x => simp [hev] at h
              | str s => simp [hev] at h
            | err k => simp [hev] at h
            | panic q => simp [hev] at h
      | err k => simp [hl] at h
      | panic q => simp [hl] at h

/-- an option is reported Disabled exactly when it carries a condition that evaluates to false: the first option of a
group, for every group (the others follow by the same equation on the tail) -/
theorem first_option_disabled_iff (env : Env σ) (mk : Markup π μ) (st : Store) (vis : Map Nat) (l : LineSpec) (b : List Stmt)
    (os : List (LineSpec × List Stmt)) (w w' : W σ) (ms ms' : π) (x : μ × List String × Bool) (r : List (μ × List String × Bool))
    (h : renderOptions env mk st vis ((l, b) :: os) w ms = (.ok (x :: r), w', ms')) :
    (x.2.2 = true ↔ ∃ c w₁ w₂ ms₁ t, l.cond = some c ∧ renderLine env mk st vis l w ms = (.ok t, w₁, ms₁) ∧
                      eval env st vis c w₁ = (.ok (.bool false), w₂)) := by
  simp only [renderOptions] at h
  cases hl : renderLine env mk st vis l w ms with
  | mk o rest =>
    obtain ⟨w₁, ms₁⟩ := rest
    cases o with
    | ok t =>
      simp only [hl] at h
      cases hc : l.cond with
      | none =>
        simp only [hc] at h
        cases hr : renderOptions env mk st vis os w₁ ms₁ with
        | mk o₂ rest₂ =>
          cases o₂ with
          | ok r₂ =>
            simp only [hr, Prod.mk.injEq, Outcome.ok.injEq, List.cons.injEq] at h
            obtain ⟨⟨h1, _⟩, _⟩ := h
            subst h1
            simp
          | err k => simp [hr] at h
          | panic q => simp [hr] at h
      | some c =>
        simp only [hc] at h
        cases hev : eval env st vis c w₁ with
        | mk o₃ w₃ =>
          cases o₃ with
          | ok v =>
            cases v with
            | bool bb =>
              simp only [hev] at h
              cases hr : renderOptions env mk st vis os w₃ ms₁ with
              | mk o₂ rest₂ =>
                cases o₂ with
                | ok r₂ =>
                  simp only [hr, Prod.mk.injEq, Outcome.ok.injEq, List.cons.injEq] at h
                  obtain ⟨⟨h1, _⟩, _⟩ := h
                  subst h1
                  constructor
                  · intro hd
                    simp only [Bool.not_eq_true'] at hd
                    subst hd
                    exact ⟨c, w₁, w₃, ms₁, t, rfl, rfl, hev⟩
                  · rintro ⟨c', w₁', w₂', ms₁', t', hc', hl', he'⟩
                    cases hc'
                    simp only [Prod.mk.injEq, Outcome.ok.injEq] at hl'
                    obtain ⟨_, hw, _⟩ := hl'
                    subst hw
                    rw [hev] at he'
                    simp only [Prod.mk.injEq, Outcome.ok.injEq, Value.bool.injEq] at he'
                    simp [he'.1]
                | err k => simp [hr] at h
                | panic q => simp [hr] at h
            | num x => simp [hev] at h
            | str s => simp [hev] at h
          | err k => simp [hev] at h
          | panic q => simp [hev] at h
    | err k => simp [hl] at h
    | panic q => simp [hl] at h

/-- a condition that is not a boolean is an error of the group, not a silently enabled or disabled option -/
theorem non_boolean_condition_is_error (env : Env σ) (mk : Markup π μ) (st : Store) (vis : Map Nat) (l : LineSpec) (b : List Stmt)
    (os : List (LineSpec × List Stmt)) (w w₁ w₂ : W σ) (ms ms₁ : π) (t : μ) (c : Expr) (v : Value)
    (hl : renderLine env mk st vis l w ms = (.ok t, w₁, ms₁)) (hc : l.cond = some c)
    (he : eval env st vis c w₁ = (.ok v, w₂)) (hv : v.ty ≠ .bool) :
    (renderOptions env mk st vis ((l, b) :: os) w ms).1 = .err .illTyped := by
  cases v <;> simp_all [renderOptions, Value.ty]

/-- non-vacuity: `"a " ++ display 3 ++ " b"` -/
example : Rendered (σ := Unit) ⟨fun _ _ h => (.err .callFailed, h), fun _ => false, fun _ _ h => (.unknown, h)⟩ [] []
    [.inl "a ", .inr (.lit (.bool true)), .inl " b"] ⟨(), default⟩ ("a " ++ (display (.bool true) ++ (" b" ++ ""))) ⟨(), default⟩ :=
  .text _ _ _ _ _ (.expr _ _ _ _ _ _ _ (by simp [eval]) (.text _ _ _ _ _ (.nil _)))

end Ysgo.C04
