import Ysgo.Lemmas.CmdArgs
/-!
# C17 — custom commands receive exactly the arguments written

Over the model `Ysgo.CmdArgs` of `rearrange` / `split` / `valueFromCommandText` (tree.go, repaired) and of the
CommandMode keyword rules of the lexer grammar. The dispatch theorem (`dispatch_once_in_order`: the handler registered
under the first word is invoked once with the remaining values; `stop` is never dispatched; an unknown name is an error)
is stated over the runner model and lives with it.
-/
namespace Ysgo.C17
open Ysgo Ysgo.CmdArgs

/-! ### 1. args_of_words, command_spacing_invisible -/

/-- **C17.1 `args_of_words`**: for a command written as text segments separated by inline expressions
`t₀ {e₁} t₁ … {eₙ} tₙ`, every segment being words (no white space inside; `{`, `>` cannot occur in a COMMAND_TEXT token)
separated by ANY non-empty runs of Unicode white space — blanks, tabs, no-break spaces, … — with optional white space
before the first and after the last word, and however the lexer chunks a segment into COMMAND_TEXT tokens: `rearrange`
yields `classify w` for every word, with the expressions in place, in order. A word touching an expression
(`a{1}b`) is still a word of its own. -/
theorem args_of_words {α} (segs : List (Seg × α)) (last : Seg) (hg : ∀ p ∈ segs, p.1.Good) (hl : last.Good) :
    rearrange (written segs last) = expectedArgs (segs.map fun p => (p.1.words, p.2)) last.words :=
  rearrange_written segs last hg hl

/-- **C17.1 `command_spacing_invisible`**: two ways of writing the same words and expressions — different amounts and
kinds of white space, different chunking — are the same command. -/
theorem command_spacing_invisible {α} (segs segs' : List (Seg × α)) (last last' : Seg)
    (hg : ∀ p ∈ segs, p.1.Good) (hl : last.Good) (hg' : ∀ p ∈ segs', p.1.Good) (hl' : last'.Good)
    (hsame : segs.map (fun p => (p.1.words, p.2)) = segs'.map (fun p => (p.1.words, p.2))) (hlast : last.words = last'.words) :
    rearrange (written segs last) = rearrange (written segs' last') := by
  rw [args_of_words segs last hg hl, args_of_words segs' last' hg' hl', hsame, hlast]

/-- the chunking of a run of text into COMMAND_TEXT tokens is invisible (the lexer always delivers the first character
of a command as a token of its own) -/
theorem chunking_invisible {α} (cs : List (List Char)) (h : ∀ c ∈ cs, c ≠ []) (rest : List (Elem α)) :
    rearrange (cs.map .text ++ rest) = rearrange (.text cs.flatten :: rest) ∨ cs.flatten = [] := by
  by_cases he : cs.flatten = []
  · exact Or.inr he
  · left
    unfold rearrange
    rw [rearrangeAux_chunks cs h rest []]
    have : cs.flatten.isEmpty = false := by
      cases hf : cs.flatten with
      | nil => exact absurd hf he
      | cons _ _ => rfl
    simp [rearrangeAux, this]

/-- "white space" in the two theorems above is Go's `unicode.IsSpace`, the table regenerated from the toolchain -/
theorem white_space_is_unicode_IsSpace (c : Char) : isSpaceGo c = Unicode.isSpace c := isSpaceGo_eq_unicode c

/-! ### 2. classify_spec -/

theorem numberShape_not_bool (w : List Char) (h : NumberShape w) : w ≠ "true".toList ∧ w ≠ "false".toList := by
  have hn := (isNumberWord_iff w).mpr h
  constructor <;> (intro he; rw [he] at hn; revert hn; decide)

/-- **C17.2 `classify_spec`**: `true` / `false` are booleans; a word of the shape `-?digits(.digits)?` is the number
`strconv.ParseFloat` reads (the double nearest to that decimal: `F64.parseFloat`, validated by the f64 stream; a word
of this shape cannot fail to parse except by overflowing, and then stays a string); every other word — `Inf`, `NaN`,
`1e3`, `1_000`, `0x1p4`, `.5`, `5.`, `+1`, `True`, … — is the string itself. -/
theorem classify_spec (w : List Char) :
    (w = "true".toList → classify w = .bool true) ∧
    (w = "false".toList → classify w = .bool false) ∧
    (NumberShape w → classify w = numberValue w) ∧
    (w ≠ "true".toList → w ≠ "false".toList → ¬ NumberShape w → classify w = .str (String.ofList w)) := by
  refine ⟨fun h => by simp [classify, h], fun h => ?_, fun h => ?_, fun h1 h2 h3 => ?_⟩
  · subst h; rfl
  · obtain ⟨h1, h2⟩ := numberShape_not_bool w h
    have hn := (isNumberWord_iff w).mpr h
    unfold classify
    rw [if_neg h1, if_neg h2]
    simp [hn]
  · have hn : isNumberWord w = false := by
      cases hb : isNumberWord w
      · rfl
      · exact absurd ((isNumberWord_iff w).mp hb) h3
    unfold classify
    rw [if_neg h1, if_neg h2]
    simp [hn]

/-! ### 4. keyword_prefixed_is_command (partial: finding F27) -/

/-
The stated goal, FALSE of the code and therefore of its model (finding F27):

  theorem keyword_prefixed_is_command (sp : List Char) (hk : sp ∈ allKeywords) (c : Char) (rest : List Char)
      (hc : isSpaceGo c = false) : cmdHead (sp ++ c :: rest) = .text

"a head that merely begins with a keyword and continues with a non-space character is an ordinary command". The lexer
rules COMMAND_ELSE (`'else' [\p{White_Space}]?`), COMMAND_ENDIF (`'endif'`) and COMMAND_ENDENUM
(`'endenum' [\p{White_Space}]?`) do not demand the white space, so a name starting with `else` (hence also `elseif…`),
`endif` or `endenum` is lexed as that keyword followed by garbage: `else_prefix_counterexample`. The grammar cannot be
regenerated here (no ANTLR tool), so the defect stays and is listed as a known finding.
-/

/-- **C17.4 `keyword_prefixed_is_command_partial`**: what holds — for the eight keywords whose rule demands the white
space and that do not start with `else`/`endif`/`endenum` (`if set call declare jump enum case local`), a head that
begins with the keyword and continues with a non-space character (`iffy`, `settings`, `jumpy`, `callous`, `declared`,
`localize`, `enumerate`, `cases`, also `if>>`: a bare `<<if>>`) is COMMAND_TEXT: an ordinary command. Missing for the
full statement: `else`, `elseif`, `endif`, `endenum`. -/
theorem keyword_prefixed_is_command_partial (k : Keyword) (sp : List Char) (hk : (k, sp) ∈ strictKeywords)
    (c : Char) (rest : List Char) (hc : isSpaceGo c = false) : cmdHead (sp ++ c :: rest) = .text := by
  rw [strictKeywords_eq] at hk
  simp only [List.mem_cons, Prod.mk.injEq, List.not_mem_nil, or_false] at hk
  rcases hk with ⟨_, rfl⟩ | ⟨_, rfl⟩ | ⟨_, rfl⟩ | ⟨_, rfl⟩ | ⟨_, rfl⟩ | ⟨_, rfl⟩ | ⟨_, rfl⟩ | ⟨_, rfl⟩
  all_goals simp [cmdHead, nextToken, keywordRules_eq, bestKeyword, matchKeyword, afterKeyword, List.isPrefixOf, isWhiteSpace, hc]

/-- **`else_prefix_counterexample`** (F27): `<<elsewhere>>` starts with the keyword token `else` — it is not an ordinary
command. The witness replayed on the implementation. -/
theorem else_prefix_counterexample : cmdHead "elsewhere".toList = .kw .else_ := by decide

/-- the other two rules without the white space requirement, and `elseif…` through its prefix `else` -/
theorem endif_endenum_prefix_counterexamples :
    cmdHead "endiffy".toList = .kw .endif ∧ cmdHead "endenums".toList = .kw .endenum ∧
    cmdHead "elseifx".toList = .kw .else_ := by decide

theorem space_ne (c : Char) (hc : isSpaceGo c = true) (d : Char) (hd : isSpaceGo d = false) : (c == d) = false := by
  cases h : c == d
  · rfl
  · rw [beq_iff_eq] at h; subst h; rw [hc] at hd; cases hd

/-- COMMAND_WS: blanks and tabs before the first token are skipped -/
theorem cmdHead_lead (lead : List Char) (hl : ∀ x ∈ lead, x = ' ' ∨ x = '\t') (t : List Char)
    (ht : ∀ x, t.head? = some x → ¬ (x = ' ' ∨ x = '\t')) : cmdHead (lead ++ t) = nextToken t := by
  unfold cmdHead
  congr 1
  induction lead with
  | nil =>
    cases t with
    | nil => rfl
    | cons x xs =>
      have := ht x rfl
      simp only [List.nil_append, List.dropWhile]
      split
      · rename_i h; simp at h; exact absurd h this
      · rfl
  | cons y ys ih =>
    have hy := hl y (by simp)
    have : (decide (y = ' ') || decide (y = '\t')) = true := by simpa using hy
    simp only [List.cons_append, List.dropWhile, this]
    exact ih (fun x hx => hl x (by simp [hx]))

theorem nextToken_keyword_space (k : Keyword) (sp : List Char) (ws : WsReq) (hk : (k, sp, ws) ∈ keywordRules)
    (c : Char) (rest : List Char) (hc : isSpaceGo c = true) :
    nextToken (sp ++ c :: rest) = .kw k ∧ ∀ x, (sp ++ c :: rest).head? = some x → ¬ (x = ' ' ∨ x = '\t') := by
  have hi : ¬ ('i' = c) := by
    intro h; subst h; revert hc; decide
  have hi' : isSpaceGo 'i' = false := by decide
  rw [keywordRules_eq] at hk
  simp only [List.mem_cons, Prod.mk.injEq, List.not_mem_nil, or_false] at hk
  rcases hk with ⟨rfl, rfl, rfl⟩ | ⟨rfl, rfl, rfl⟩ | ⟨rfl, rfl, rfl⟩ | ⟨rfl, rfl, rfl⟩ | ⟨rfl, rfl, rfl⟩ | ⟨rfl, rfl, rfl⟩ |
      ⟨rfl, rfl, rfl⟩ | ⟨rfl, rfl, rfl⟩ | ⟨rfl, rfl, rfl⟩ | ⟨rfl, rfl, rfl⟩ | ⟨rfl, rfl, rfl⟩ | ⟨rfl, rfl, rfl⟩
  all_goals
    constructor
    · simp [nextToken, keywordRules_eq, bestKeyword, matchKeyword, afterKeyword, List.isPrefixOf, isWhiteSpace, hc, hi, hi']
    · simp

/-- the converse, for every keyword rule: the keyword followed by a white space character (any of the 25) is the
keyword token, after any number of blanks and tabs — such a statement is never a generic command -/
theorem keyword_then_space_is_keyword (k : Keyword) (sp : List Char) (ws : WsReq) (hk : (k, sp, ws) ∈ keywordRules)
    (lead : List Char) (hl : ∀ x ∈ lead, x = ' ' ∨ x = '\t') (c : Char) (rest : List Char) (hc : isSpaceGo c = true) :
    cmdHead (lead ++ (sp ++ c :: rest)) = .kw k := by
  obtain ⟨h1, h2⟩ := nextToken_keyword_space k sp ws hk c rest hc
  rw [cmdHead_lead lead hl _ h2, h1]

/-! ### non-vacuity -/

/-- `<<  walk  {$x}fast 	-3.5 >>`: two segments around an expression, blanks, a tab, a no-break space -/
def exSeg0 : Seg := ⟨"  ".toList, [("walk".toList, "  ".toList)], ["  w".toList, "alk  ".toList]⟩
def exSeg1 : Seg := ⟨[], [("fast".toList, [Char.ofNat 0xA0, '\t']), ("-3.5".toList, " ".toList)],
  ["fast".toList ++ [Char.ofNat 0xA0, '\t'] ++ "-3.5 ".toList]⟩
example : exSeg0.Good :=
  ⟨by decide, ⟨by decide, by decide⟩, by decide, by decide⟩
example : exSeg1.Good :=
  ⟨by decide, ⟨by decide, by decide, by decide, by decide, by decide⟩, by decide, by decide⟩
example : (rearrange (written [(exSeg0, 7)] exSeg1) : List (Arg Nat)) =
    [.word (.str "walk"), .expr 7, .word (.str "fast"), .word (classify "-3.5".toList)] := rfl
/-- the repaired classification of look-alikes -/
example : classify "-3.5".toList = .num ⟨13838435755002691584⟩ := rfl
example : classify "007".toList = .num (F64.ofInt 7) := rfl
example : classify "Inf".toList = .str "Inf" ∧ classify "NaN".toList = .str "NaN" ∧ classify "1e3".toList = .str "1e3" ∧
    classify "1_000".toList = .str "1_000" ∧ classify "0x1p4".toList = .str "0x1p4" ∧ classify ".5".toList = .str ".5" ∧
    classify "5.".toList = .str "5." ∧ classify "+1".toList = .str "+1" ∧ classify "True".toList = .str "True" :=
  ⟨rfl, rfl, rfl, rfl, rfl, rfl, rfl, rfl, rfl⟩
example : NumberShape "-3.5".toList := ⟨true, ['3'], ['5'], true, by decide, by decide, by decide, fun _ => ⟨by decide, by decide⟩⟩
example : ¬ NumberShape "1e3".toList := fun h => by
  have := (isNumberWord_iff _).mpr h; revert this; decide
example : (Keyword.jump, "jump".toList) ∈ strictKeywords := by decide
example : cmdHead "jumpy there".toList = .text := by decide
example : cmdHead "  jump there".toList = .kw .jump := by decide
example : cmdHead ">>".toList = .cmdEnd := by decide

end Ysgo.C17
