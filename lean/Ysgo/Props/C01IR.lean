import Ysgo.Generated.RunnerIR
/-!
# C01 / C03 / C07 / C11 / C12 — runner.go, regenerated on every run, IS the runner model

`tools/runnerir` translates the bodies of the methods of `runner.go` into the Go IR of `Spec/RunnerIR.lean`
(`Generated/RunnerIR.lean`); the interpreter there gives the terms their Go meaning over the Go-level state `GR`
(data + stack of queues + `dr.lastStatement`). The theorems below prove, for ALL states, programs, hosts and markup
passes, that the code as translated just now does exactly what the hand-written model does (`exec`, `poll`, `R.micro`,
`R.restore`, `R.snapshot`) — so everything proved about the model in C01, C03, C07, C11, C12 is proved about a machine
that is re-derived from the source on every run. A semantic change of the source (a deleted `Clear()`, `>=` turned into
`>`, an assignment moved across the statement it depends on) regenerates another term and breaks a theorem; a rewrite
that means the same (renamed locals, reworded error texts, a `switch` written as an if-chain) does not.

Errors are compared as errors (the code has texts, the model has kinds: `helperRes`, `outOf` erase both); the ghost
`jumpLog` of the model has no counterpart in the code and is kept out of the comparison (`keepLog`).
-/
namespace Ysgo.C01IR
open Ysgo Ysgo.RunnerIR Ysgo.Generated
set_option linter.unusedSimpArgs false
set_option linter.unusedVariables false

variable {σ π μ : Type} (henv : Env σ) (mkp : Markup π μ) (prog : Program)

theorem qget_top (q : SQ) (rest : List SQ) : qget (q :: rest) rest.length = some q := by
  simp [qget]
theorem qset_top (q q' : SQ) (rest : List SQ) : qset (q :: rest) rest.length q' = q' :: rest := by
  simp [qset]

-- symbolic evaluation of the interpreter on a closed IR term: unfold every equation of the interpreter
open Lean.Parser.Tactic in
macro "ir_simp" "[" ts:simpLemma,* "]" : tactic =>
  `(tactic| simp [execSs, execS, evalE, evalEs, field, fieldPure, setField, prim, meth, lenOf, binop, veq, isNil, index,
      ofIdx, assignAll, assign1, ofAssign, constant, zeroOf, mkLit, lookupName, ofCall, isUser, chanRecv, setOpt,
      pendingToGV, withW, withStore, loop, rangeItems, RunnerIR.enumFrom, qget_top, qset_top, $ts,*])

abbrev src := runnerSrc

theorem find_next : findFn src "Next" = some fn_Next := rfl
theorem find_waiting : findFn src "isWaitingForChoice" = some fn_isWaitingForChoice := rfl
theorem find_set : findFn src "executeSetStatement" = some fn_executeSetStatement := rfl
theorem find_jump : findFn src "executeJumpStatement" = some fn_executeJumpStatement := rfl
theorem find_inc : findFn src "incrementNodeTrackingIfAllowed" = some fn_incrementNodeTrackingIfAllowed := rfl
theorem find_if : findFn src "executeIfStatement" = some fn_executeIfStatement := rfl
theorem find_cmd : findFn src "executeCommandStatement" = some fn_executeCommandStatement := rfl
theorem find_call : findFn src "executeCallStatement" = some fn_executeCallStatement := rfl
theorem find_decl : findFn src "executeDeclareStatement" = some fn_executeDeclareStatement := rfl
theorem find_restore : findFn src "RestoreAt" = some fn_RestoreAt := rfl
theorem find_snapshot : findFn src "Snapshot" = some fn_Snapshot := rfl
theorem find_nextStatement : findFn src "nextStatement" = some fn_nextStatement := rfl

/-- what a helper `execute…Statement(…) error` returns and leaves behind, read off the model's `exec`: the data, the
control request applied to the stack, nil / an error / the panic -/
def helperRes (x : Data σ π × Ctl × Option (Outcome (Elem μ))) (stack : List SQ) (last : Option Stmt) : SRes σ π μ :=
  match x.2.2 with
  | none => .ret [.nil] ⟨x.1, applyCtlR x.2.1 stack, last⟩
  | some (.err _) => .ret [.err] ⟨x.1, applyCtlR x.2.1 stack, last⟩
  | some (.panic p) => .panic p ⟨x.1, applyCtlR x.2.1 stack, last⟩
  | some (.ok _) => .stuck

/-- the ghost log of the model is not in the code -/
def keepLog (l : List (String × String)) (x : Data σ π × Ctl × Option (Outcome (Elem μ))) :
    Data σ π × Ctl × Option (Outcome (Elem μ)) := ({ x.1 with jumpLog := l }, x.2)

/-! ### (*statementQueue).nextStatement -/

/-- `nextStatement` on the top queue: past the end ⇒ `(nil, false)`, nothing changed; otherwise the statement under
the pointer, and the pointer advanced by one -/
theorem nextStatement_is_model (user : User σ π μ) (d : Data σ π) (q : SQ) (rest : List SQ) (last : Option Stmt) :
    callDef henv mkp prog user src "nextStatement" (.qref rest.length) [] ⟨d, q :: rest, last⟩ =
      match q.stmts[q.ptr]? with
      | none => .ret [.nil, .bool false] ⟨d, q :: rest, last⟩
      | some s => .ret [.stmt s, .bool true] ⟨d, { q with ptr := q.ptr + 1 } :: rest, last⟩ := by
  simp only [callDef, find_nextStatement, fn_nextStatement]
  by_cases hle : q.stmts.length ≤ q.ptr
  · ir_simp [hle]
  · have hlt : q.ptr < q.stmts.length := by omega
    ir_simp [hle, hlt]

/-! ### isWaitingForChoice -/

theorem isWaitingForChoice_is_model (user : User σ π μ) (d : Data σ π) (stack : List SQ) (last : Option Stmt) :
    callDef henv mkp prog user src "isWaitingForChoice" .dr [] ⟨d, stack, last⟩ =
      .ret [.bool ((GR.abs ⟨d, stack, last⟩).waiting.isSome)] ⟨d, stack, last⟩ := by
  simp only [callDef, find_waiting, fn_isWaitingForChoice]
  cases last with
  | none => ir_simp [GR.abs]
  | some s => cases s <;> ir_simp [GR.abs, isOpts]

/-! ### executeSetStatement (C03, C12: a failing statement writes nothing) -/

/-- `executeSetStatement` is the `.set` case of `exec`: `eval`, then `applyAssign` on the stored value, then the store
update — and every error branch returns an error having written nothing but what the evaluation itself did -/
theorem executeSetStatement_is_model (user : User σ π μ) (d : Data σ π) (stack : List SQ) (last : Option Stmt)
    (v : String) (op : AssignOp) (e : Expr) :
    callDef henv mkp prog user src "executeSetStatement" .dr [.setS v op e] ⟨d, stack, last⟩ =
      helperRes (exec henv mkp prog d (.set v op e)) stack last := by
  simp only [callDef, find_set, fn_executeSetStatement]
  cases he : eval henv d.store d.visited e d.w with
  | mk o w =>
    cases o with
    | err k => ir_simp [he, exec, helperRes, applyCtlR]
    | panic q => ir_simp [he, exec, helperRes, applyCtlR]
    | ok x =>
      cases hg : d.store.get v with
      | none => cases x <;> cases op <;> ir_simp [he, hg, exec, helperRes, applyCtlR, applyAssign]
      | some old =>
        cases x <;> cases old <;> cases op <;> ir_simp [he, hg, exec, helperRes, applyCtlR, applyAssign, Value.ty]

/-- read off the theorem: an error (or a panic) of the set statement leaves the variables as they were -/
theorem executeSetStatement_failure_writes_nothing (user : User σ π μ) (d : Data σ π) (stack : List SQ) (last : Option Stmt)
    (v : String) (op : AssignOp) (e : Expr) (g' : GR σ π)
    (h : callDef henv mkp prog user src "executeSetStatement" .dr [.setS v op e] ⟨d, stack, last⟩ = .ret [.err] g') :
    g'.d.store = d.store ∧ g'.stack = stack ∧ g'.last = last := by
  rw [executeSetStatement_is_model] at h
  simp only [exec, helperRes] at h
  cases he : eval henv d.store d.visited e d.w with
  | mk o w =>
    cases o with
    | err k => simp [he, applyCtlR] at h; subst h; simp
    | panic q => simp [he] at h
    | ok x =>
      cases ha : applyAssign op (d.store.get v) x with
      | ok nv => simp [he, ha] at h
      | err k => simp [he, ha, applyCtlR] at h; subst h; simp
      | panic q => simp [he, ha] at h

/-! ### executeDeclareStatement -/

/-- a declare statement is the set statement `v = value` (the model has no separate statement for it) -/
theorem executeDeclareStatement_is_model (user : User σ π μ) (d : Data σ π) (stack : List SQ) (last : Option Stmt)
    (v : String) (e : Expr)
    (hset : ∀ d stack last v op e, user "executeSetStatement" .dr [.setS v op e] ⟨d, stack, last⟩ =
      helperRes (exec henv mkp prog d (.set v op e)) stack last) :
    callDef henv mkp prog user src "executeDeclareStatement" .dr [.declS v e] ⟨d, stack, last⟩ =
      helperRes (exec henv mkp prog d (.set v .set e)) stack last := by
  simp only [callDef, find_decl, fn_executeDeclareStatement]
  ir_simp [hset]
  generalize exec henv mkp prog d (.set v .set e) = x
  obtain ⟨d', ctl, out⟩ := x
  cases out with
  | none => simp [helperRes]
  | some o => cases o <;> simp [helperRes]

/-! ### incrementNodeTrackingIfAllowed, executeJumpStatement (C11) -/

/-- the visit counter of the node being left goes up by one iff that node exists and is tracked -/
def incModel (d : Data σ π) : Data σ π :=
  { d with visited := if ((prog.find d.cur).map Node.tracked).getD false then bump d.visited d.cur else d.visited }

theorem incrementNodeTracking_is_model (user : User σ π μ) (d : Data σ π) (stack : List SQ) (last : Option Stmt) :
    callDef henv mkp prog user src "incrementNodeTrackingIfAllowed" .dr [] ⟨d, stack, last⟩ =
      .ret [] ⟨incModel prog d, stack, last⟩ := by
  simp only [callDef, find_inc, fn_incrementNodeTrackingIfAllowed]
  cases hf : prog.find d.cur with
  | none => ir_simp [hf, incModel]
  | some n =>
    cases hb : (n.tracking == "never") with
    | true => ir_simp [hf, incModel, Node.tracked, hb, bne]
    | false => ir_simp [hf, incModel, Node.tracked, hb, bne]

/-- `executeJumpStatement` is the `.jump` case of `exec`: an unknown node (or a non-string, or a failing expression) is
an error with no state change beyond the evaluation; otherwise the counter of the node being LEFT is bumped iff it is
tracked, the checkpoint takes the variables, the stack becomes the single queue of the target, the node changes -/
theorem executeJumpStatement_is_model (user : User σ π μ) (d : Data σ π) (stack : List SQ) (last : Option Stmt) (e : Expr)
    (hinc : ∀ d stack last, user "incrementNodeTrackingIfAllowed" .dr [] ⟨d, stack, last⟩ = .ret [] ⟨incModel prog d, stack, last⟩) :
    callDef henv mkp prog user src "executeJumpStatement" .dr [.jumpS e] ⟨d, stack, last⟩ =
      helperRes (keepLog d.jumpLog (exec henv mkp prog d (.jump e))) stack last := by
  simp only [callDef, find_jump, fn_executeJumpStatement]
  cases he : eval henv d.store d.visited e d.w with
  | mk o w =>
    cases o with
    | err k => ir_simp [he, exec, helperRes, applyCtlR, keepLog]
    | panic q => ir_simp [he, exec, helperRes, applyCtlR, keepLog]
    | ok x =>
      cases x with
      | num a => ir_simp [he, exec, helperRes, applyCtlR, keepLog]
      | bool a => ir_simp [he, exec, helperRes, applyCtlR, keepLog]
      | str t =>
        cases hf : prog.find t with
        | none => ir_simp [he, hf, exec, helperRes, applyCtlR, keepLog]
        | some n => ir_simp [he, hf, exec, helperRes, applyCtlR, keepLog, hinc, incModel]

/-! ### loops: the body of a `range` as generated, sequencing -/

def rangeBody : GS → List GS | .range _ _ _ b => b | _ => []

/-- a function body with one loop is cut at the loop, wherever it stands: the statements before the first `range`, the
`range` and what follows it (so a statement added or removed before the loop moves nothing in the proofs) -/
def isRange : GS → Bool
  | .range _ _ _ _ => true
  | .assign _ _ => false | .expr _ => false | .inc _ => false | .var _ _ => false | .ite _ _ _ _ => false
  | .ret _ => false | .tail _ => false | .select _ _ _ _ => false | .unsupported _ => false
def beforeRange (l : List GS) : List GS := l.takeWhile (fun s => !isRange s)
def fromRange (l : List GS) : List GS := l.dropWhile (fun s => !isRange s)


theorem execSs_append (user : User σ π μ) (self : GV μ) (a b : List GS) : ∀ (env : List (GV μ)) (g : GR σ π),
    execSs henv mkp prog user self env (a ++ b) g =
      match execSs henv mkp prog user self env a g with
      | .norm env g => execSs henv mkp prog user self env b g
      | r => r := by
  induction a with
  | nil => intro env g; simp [execSs]
  | cons s ss ih =>
    intro env g
    simp only [List.cons_append, execSs]
    cases execS henv mkp prog user self env s g <;> simp [ih]

theorem evalArgs_length (st : Store) (vis : Map Nat) (es : List Expr) :
    ∀ (w w' : W σ) (vs : List Value), evalArgs henv st vis es w = (.ok vs, w') → vs.length = es.length := by
  induction es with
  | nil => intro w w' vs h; simp [evalArgs] at h; simp [h.1.symm]
  | cons e es ih =>
    intro w w' vs h
    rw [evalArgs] at h
    cases he : eval henv st vis e w with
    | mk o w1 =>
      cases o with
      | err k => simp [he] at h
      | panic q => simp [he] at h
      | ok v =>
        cases hr : evalArgs henv st vis es w1 with
        | mk o2 w2 =>
          cases o2 with
          | err k => simp [he, hr] at h
          | panic q => simp [he, hr] at h
          | ok vs2 =>
            simp [he, hr] at h
            have := ih w1 w2 vs2 hr
            simp [← h.1, this]


/-! ### executeIfStatement -/

/-- the body of the loop over the clauses, as generated -/
def ifBody : List GS := match fn_executeIfStatement.body with | s :: _ => rangeBody s | [] => []

theorem if_shape : fn_executeIfStatement.body = [.range none (some 1) (.sel (.loc 0) "Clauses") ifBody, .ret [.nilE]] := rfl

/-- one turn of the loop: evaluate the clause's condition; true ⇒ push its body and return; false ⇒ go on -/
theorem if_body (user : User σ π μ) (stack : List SQ) (last : Option Stmt) (c : Expr) (b : List Stmt) (d : Data σ π)
    (a0 a2 a3 : GV μ) :
    execSs henv mkp prog user .dr [a0, .clause (c, b), a2, a3] ifBody ⟨d, stack, last⟩ =
      match eval henv d.store d.visited c d.w with
      | (.ok (.bool true), w) => .ret [.nil] ⟨{ d with w := w }, ⟨b, 0⟩ :: stack, last⟩
      | (.ok (.bool false), w) => .norm [a0, .clause (c, b), .val (.bool false), .nil] ⟨{ d with w := w }, stack, last⟩
      | (.ok _, w) => .ret [.err] ⟨{ d with w := w }, stack, last⟩
      | (.err _, w) => .ret [.err] ⟨{ d with w := w }, stack, last⟩
      | (.panic q, w) => .panic q ⟨{ d with w := w }, stack, last⟩ := by
  simp only [ifBody, fn_executeIfStatement, rangeBody]
  cases he : eval henv d.store d.visited c d.w with
  | mk o w =>
    cases o with
    | err k => ir_simp [he]
    | panic q => ir_simp [he]
    | ok x =>
      cases x with
      | num a => ir_simp [he]
      | str a => ir_simp [he]
      | bool a => cases a <;> ir_simp [he]

theorem if_loop (user : User σ π μ) (stack : List SQ) (last : Option Stmt) (cs : List (Expr × List Stmt)) :
    ∀ (n : Nat) (d : Data σ π) (a0 a1 a2 a3 : GV μ),
    ∃ env', loop (fun env g => execSs henv mkp prog user .dr env ifBody g) none (some 1)
        (RunnerIR.enumFrom .int n (cs.map .clause)) [a0, a1, a2, a3] ⟨d, stack, last⟩ =
      match firstTrue henv d.store d.visited cs d.w with
      | (.ok (some b), w) => .ret [.nil] ⟨{ d with w := w }, ⟨b, 0⟩ :: stack, last⟩
      | (.ok none, w) => .norm env' ⟨{ d with w := w }, stack, last⟩
      | (.err _, w) => .ret [.err] ⟨{ d with w := w }, stack, last⟩
      | (.panic q, w) => .panic q ⟨{ d with w := w }, stack, last⟩ := by
  induction cs with
  | nil => intro n d a0 a1 a2 a3; exact ⟨[a0, a1, a2, a3], by simp [loop, RunnerIR.enumFrom, firstTrue]⟩
  | cons cb cs ih =>
    intro n d a0 a1 a2 a3
    obtain ⟨c, b⟩ := cb
    simp only [List.map_cons, RunnerIR.enumFrom, loop, setOpt, List.set, if_body, firstTrue]
    cases he : eval henv d.store d.visited c d.w with
    | mk o w =>
      cases o with
      | err k => exact ⟨[], by simp⟩
      | panic q => exact ⟨[], by simp⟩
      | ok x =>
        cases x with
        | num a => exact ⟨[], by simp⟩
        | str a => exact ⟨[], by simp⟩
        | bool a =>
          cases a with
          | true => exact ⟨[], by simp⟩
          | false =>
            obtain ⟨env', h⟩ := ih (n + 1) { d with w := w } a0 (.clause (c, b)) (.val (.bool false)) .nil
            exact ⟨env', by simpa using h⟩

/-- `executeIfStatement` is the `.ifs` case of `exec`: `firstTrue` over the clauses in order, the body of the first
true one pushed, nothing pushed when none is true, an error (nothing pushed) on a failing or non-boolean condition -/
theorem executeIfStatement_is_model (user : User σ π μ) (d : Data σ π) (stack : List SQ) (last : Option Stmt)
    (cs : List (Expr × List Stmt)) :
    callDef henv mkp prog user src "executeIfStatement" .dr [.ifS cs] ⟨d, stack, last⟩ =
      helperRes (exec henv mkp prog d (.ifs cs)) stack last := by
  simp only [callDef, find_if, if_shape]
  obtain ⟨env', h⟩ := if_loop henv mkp prog user stack last cs 0 d (.ifS cs) .nil .nil .nil
  simp [execSs, execS, evalE, field, fieldPure, rangeItems, fn_executeIfStatement, h]
  cases hf : firstTrue henv d.store d.visited cs d.w with
  | mk o w =>
    cases o with
    | err k => simp [exec, hf, helperRes, applyCtlR]
    | panic q => simp [exec, hf, helperRes, applyCtlR]
    | ok x => cases x <;> simp [exec, hf, helperRes, applyCtlR, execSs, execS, evalE]
/-! ### executeCommandStatement (C10) -/

def cmdPre : List GS := beforeRange fn_executeCommandStatement.body
def cmdBody : List GS := match fromRange fn_executeCommandStatement.body with | s :: _ => rangeBody s | [] => []
def cmdPost : List GS := (fromRange fn_executeCommandStatement.body).drop 1

theorem cmd_shape : fn_executeCommandStatement.body =
    cmdPre ++ (.range (some 4) none (.sel (.loc 0) "Elements") cmdBody :: cmdPost) := rfl

/-- what `executeCommandStatement(…) (stop bool, err error)` returns, read off the model's `exec` -/
def cmdRes (x : Data σ π × Ctl × Option (Outcome (Elem μ))) (stack : List SQ) (last : Option Stmt) : SRes σ π μ :=
  match x.2.1, x.2.2 with
  | .halt, _ => .ret [.bool true, .nil] ⟨x.1, stack, last⟩          -- stop: it is the caller that clears the stack
  | _, none => .ret [.bool false, .nil] ⟨x.1, stack, last⟩
  | _, some (.ok .waiting) => .ret [.bool false, .nil] ⟨x.1, stack, last⟩   -- the channel is kept in `x.1.pending`
  | _, some (.err _) => .ret [.bool false, .err] ⟨x.1, stack, last⟩
  | _, some (.panic q) => .panic q ⟨x.1, stack, last⟩
  | _, some (.ok _) => .stuck

theorem cmd_pre (user : User σ π μ) (stack : List SQ) (last : Option Stmt) (d : Data σ π) (es : List Expr) :
    execSs henv mkp prog user .dr [.cmdS es, .nil, .nil, .nil, .nil, .nil, .nil, .nil, .nil, .nil] cmdPre ⟨d, stack, last⟩ =
      if es.length = 0 then .ret [.bool false, .err] ⟨d, stack, last⟩
      else .norm [.cmdS es, .nil, .nil, .vals [], .nil, .nil, .nil, .nil, .nil, .nil] ⟨d, stack, last⟩ := by
  simp only [cmdPre, fn_executeCommandStatement, beforeRange, fromRange, List.takeWhile, List.dropWhile, isRange, Bool.not_false, Bool.not_true, List.take]
  cases hb : (es.length == 0) with
  | true => have h : es.length = 0 := by simpa using hb
            ir_simp [h, hb]
  | false => have h : ¬ es.length = 0 := by simpa using hb
             ir_simp [h, hb]

theorem cmd_body (user : User σ π μ) (stack : List SQ) (last : Option Stmt) (d : Data σ π) (es : List Expr) (i : Nat) (e : Expr)
    (hi : es[i]? = some e) (acc : List Value) (a1 a2 a5 a6 a7 a8 a9 : GV μ) :
    execSs henv mkp prog user .dr [.cmdS es, a1, a2, .vals acc, .int i, a5, a6, a7, a8, a9] cmdBody ⟨d, stack, last⟩ =
      match eval henv d.store d.visited e d.w with
      | (.ok v, w) => .norm [.cmdS es, a1, a2, .vals (acc ++ [v]), .int i, .val v, .nil, a7, a8, a9] ⟨{ d with w := w }, stack, last⟩
      | (.err _, w) => .ret [.bool false, .err] ⟨{ d with w := w }, stack, last⟩
      | (.panic q, w) => .panic q ⟨{ d with w := w }, stack, last⟩ := by
  simp only [cmdBody, fn_executeCommandStatement, beforeRange, fromRange, List.takeWhile, List.dropWhile, isRange, Bool.not_false, Bool.not_true, List.drop, rangeBody]
  cases he : eval henv d.store d.visited e d.w with
  | mk o w => cases o <;> ir_simp [he, hi]

theorem cmd_loop (user : User σ π μ) (stack : List SQ) (last : Option Stmt) (rest : List Expr) :
    ∀ (pre : List Expr) (acc : List Value) (d : Data σ π) (a1 a2 a4 a5 a6 a7 a8 a9 : GV μ),
    ∃ b4 b5 b6, loop (fun env g => execSs henv mkp prog user .dr env cmdBody g) (some 4) none
        (RunnerIR.enumFrom .int pre.length (rest.map .cmdElem))
        [.cmdS (pre ++ rest), a1, a2, .vals acc, a4, a5, a6, a7, a8, a9] ⟨d, stack, last⟩ =
      match evalArgs henv d.store d.visited rest d.w with
      | (.ok vs, w) => .norm [.cmdS (pre ++ rest), a1, a2, .vals (acc ++ vs), b4, b5, b6, a7, a8, a9] ⟨{ d with w := w }, stack, last⟩
      | (.err _, w) => .ret [.bool false, .err] ⟨{ d with w := w }, stack, last⟩
      | (.panic q, w) => .panic q ⟨{ d with w := w }, stack, last⟩ := by
  induction rest with
  | nil => intro pre acc d a1 a2 a4 a5 a6 a7 a8 a9; exact ⟨a4, a5, a6, by simp [loop, RunnerIR.enumFrom, evalArgs]⟩
  | cons e rest ih =>
    intro pre acc d a1 a2 a4 a5 a6 a7 a8 a9
    have hi : (pre ++ e :: rest)[pre.length]? = some e := by simp
    simp only [List.map_cons, RunnerIR.enumFrom, loop, setOpt, List.set, cmd_body henv mkp prog user stack last d _ _ e hi]
    rw [evalArgs]
    cases he : eval henv d.store d.visited e d.w with
    | mk o w =>
      cases o with
      | err k => exact ⟨.nil, .nil, .nil, by simp⟩
      | panic q => exact ⟨.nil, .nil, .nil, by simp⟩
      | ok v =>
        obtain ⟨b4, b5, b6, h⟩ := ih (pre ++ [e]) (acc ++ [v]) { d with w := w } a1 a2 (.int pre.length) (.val v) .nil a7 a8 a9
        refine ⟨b4, b5, b6, ?_⟩
        simp only [List.length_append, List.length_cons, List.length_nil, List.append_assoc, List.cons_append, List.nil_append] at h
        simp only [h]
        cases hr : evalArgs henv d.store d.visited rest w with
        | mk o2 w2 => cases o2 <;> simp

theorem cmd_post (user : User σ π μ) (stack : List SQ) (last : Option Stmt) (d : Data σ π) (es : List Expr)
    (v : Value) (args : List Value) (a1 a2 b4 b5 b6 a7 a8 a9 : GV μ) :
    execSs henv mkp prog user .dr [.cmdS es, a1, a2, .vals (v :: args), b4, b5, b6, a7, a8, a9] cmdPost ⟨d, stack, last⟩ =
      match v with
      | .str name =>
        if name = "stop" then .ret [.bool true, .nil] ⟨d, stack, last⟩
        else
          (match henv.cmd name args d.w.host with
           | (.done, h) => .ret [.bool false, .nil] ⟨{ d with w := { d.w with host := h } }, stack, last⟩
           | (.failed, h) => .ret [.bool false, .err] ⟨{ d with w := { d.w with host := h } }, stack, last⟩
           | (.unknown, h) => .ret [.bool false, .err] ⟨{ d with w := { d.w with host := h } }, stack, last⟩
           | (.pending, h) => .ret [.bool false, .nil] ⟨{ d with w := { d.w with host := h }, pending := some none }, stack, last⟩
           | (.panicked, h) => .panic .host ⟨{ d with w := { d.w with host := h } }, stack, last⟩)
      | _ => .ret [.bool false, .err] ⟨d, stack, last⟩ := by
  simp only [cmdPost, fn_executeCommandStatement, beforeRange, fromRange, List.takeWhile, List.dropWhile, isRange, Bool.not_false, Bool.not_true, List.drop]
  cases v with
  | num x => ir_simp []
  | bool x => ir_simp []
  | str name =>
    cases hs : (name == "stop") with
    | true => have h : name = "stop" := by simpa using hs
              ir_simp [h]
    | false =>
      have h : ¬ name = "stop" := by simpa using hs
      cases hc : henv.cmd name args d.w.host with
      | mk o h' => cases o <;> ir_simp [h, hs, hc]

/-- `executeCommandStatement` is the `.cmd` case of `exec`: no element ⇒ error; the elements are evaluated in order
(`evalArgs`), the first must be a string; `stop` is never dispatched to the host — it returns `stop = true` and it is
`Next` that clears the stack; any other name is dispatched once, and a command still running leaves its channel in
`commandErrChan` (`pending := some none`) -/
theorem executeCommandStatement_is_model (user : User σ π μ) (d : Data σ π) (stack : List SQ) (last : Option Stmt)
    (es : List Expr) :
    callDef henv mkp prog user src "executeCommandStatement" .dr [.cmdS es] ⟨d, stack, last⟩ =
      cmdRes (exec henv mkp prog d (.cmd es)) stack last := by
  simp only [callDef, find_cmd, cmd_shape, execSs_append]
  have hpre := cmd_pre henv mkp prog user stack last d es
  simp [fn_executeCommandStatement] at hpre ⊢
  rw [hpre]
  by_cases hes : es = []
  · subst hes; simp [exec, cmdRes]
  · obtain ⟨b4, b5, b6, hl⟩ := cmd_loop henv mkp prog user stack last es [] [] d .nil .nil .nil .nil .nil .nil .nil .nil
    simp only [List.length_nil, List.nil_append] at hl
    simp [execSs, execS, evalE, field, fieldPure, rangeItems, hl, hes]
    have hex : exec henv mkp prog d (.cmd es) = (match evalArgs henv d.store d.visited es d.w with
       | (.ok (.str name :: args), w) =>
         if name = "stop" then ({ d with w := w }, .halt, some (.ok .ended))
         else
           (match henv.cmd name args w.host with
            | (.done, h) => ({ d with w := { w with host := h } }, .next, none)
            | (.failed, h) => ({ d with w := { w with host := h } }, .next, some (.err .cmdFailed))
            | (.unknown, h) => ({ d with w := { w with host := h } }, .next, some (.err .unknownCmd))
            | (.pending, h) => ({ d with w := { w with host := h }, pending := some none }, .next, some (.ok .waiting))
            | (.panicked, h) => ({ d with w := { w with host := h } }, .next, some (.panic .host)))
       | (.ok _, w) => ({ d with w := w }, .next, some (.err .illTyped))
       | (.err k, w) => ({ d with w := w }, .next, some (.err k))
       | (.panic q, w) => ({ d with w := w }, .next, some (.panic q))) := by
      cases es with
      | nil => exact absurd rfl hes
      | cons e0 es0 => rfl
    rw [hex]
    cases hr : evalArgs henv d.store d.visited es d.w with
    | mk o w =>
      cases o with
      | err k => simp [cmdRes]
      | panic q => simp [cmdRes]
      | ok vs =>
        have hlen := evalArgs_length henv d.store d.visited es d.w w vs hr
        cases vs with
        | nil => simp at hlen; exact absurd hlen.symm (by simpa using hes)
        | cons v args =>
          simp only []
          rw [cmd_post]
          cases v with
          | num x => simp [cmdRes]
          | bool x => simp [cmdRes]
          | str name =>
            by_cases hs : name = "stop"
            · simp [cmdRes, hs]
            · cases hc : henv.cmd name args w.host with
              | mk o h' => cases o <;> simp [cmdRes, hs, hc]


/-! ### executeCallStatement -/

def callPre : List GS := beforeRange fn_executeCallStatement.body
def callBody : List GS := match fromRange fn_executeCallStatement.body with | s :: _ => rangeBody s | [] => []
def callPost : List GS := (fromRange fn_executeCallStatement.body).drop 1

theorem call_shape : fn_executeCallStatement.body =
    callPre ++ (.range (some 2) none (.sel (.loc 0) "Arguments") callBody :: callPost) := rfl

theorem call_pre (user : User σ π μ) (stack : List SQ) (last : Option Stmt) (d : Data σ π) (f : String) (es : List Expr) :
    execSs henv mkp prog user .dr [.callS f es, .nil, .nil, .nil, .nil, .nil] callPre ⟨d, stack, last⟩ =
      .norm [.callS f es, .vals [], .nil, .nil, .nil, .nil] ⟨d, stack, last⟩ := by
  simp only [callPre, fn_executeCallStatement, beforeRange, fromRange, List.takeWhile, List.dropWhile, isRange, Bool.not_false, Bool.not_true, List.take]
  ir_simp []

theorem call_body (user : User σ π μ) (stack : List SQ) (last : Option Stmt) (d : Data σ π) (f : String) (es : List Expr)
    (i : Nat) (e : Expr) (hi : es[i]? = some e) (acc : List Value) (a3 a4 a5 : GV μ) :
    execSs henv mkp prog user .dr [.callS f es, .vals acc, .int i, a3, a4, a5] callBody ⟨d, stack, last⟩ =
      match eval henv d.store d.visited e d.w with
      | (.ok v, w) => .norm [.callS f es, .vals (acc ++ [v]), .int i, .val v, .nil, a5] ⟨{ d with w := w }, stack, last⟩
      | (.err _, w) => .ret [.err] ⟨{ d with w := w }, stack, last⟩
      | (.panic q, w) => .panic q ⟨{ d with w := w }, stack, last⟩ := by
  simp only [callBody, fn_executeCallStatement, beforeRange, fromRange, List.takeWhile, List.dropWhile, isRange, Bool.not_false, Bool.not_true, List.drop, rangeBody]
  cases he : eval henv d.store d.visited e d.w with
  | mk o w => cases o <;> ir_simp [he, hi]

theorem call_loop (user : User σ π μ) (stack : List SQ) (last : Option Stmt) (f : String) (rest : List Expr) :
    ∀ (pre : List Expr) (acc : List Value) (d : Data σ π) (a2 a3 a4 a5 : GV μ),
    ∃ b2 b3 b4, loop (fun env g => execSs henv mkp prog user .dr env callBody g) (some 2) none
        (RunnerIR.enumFrom .int pre.length (rest.map .expr))
        [.callS f (pre ++ rest), .vals acc, a2, a3, a4, a5] ⟨d, stack, last⟩ =
      match evalArgs henv d.store d.visited rest d.w with
      | (.ok vs, w) => .norm [.callS f (pre ++ rest), .vals (acc ++ vs), b2, b3, b4, a5] ⟨{ d with w := w }, stack, last⟩
      | (.err _, w) => .ret [.err] ⟨{ d with w := w }, stack, last⟩
      | (.panic q, w) => .panic q ⟨{ d with w := w }, stack, last⟩ := by
  induction rest with
  | nil => intro pre acc d a2 a3 a4 a5; exact ⟨a2, a3, a4, by simp [loop, RunnerIR.enumFrom, evalArgs]⟩
  | cons e rest ih =>
    intro pre acc d a2 a3 a4 a5
    have hi : (pre ++ e :: rest)[pre.length]? = some e := by simp
    simp only [List.map_cons, RunnerIR.enumFrom, loop, setOpt, List.set, call_body henv mkp prog user stack last d f _ _ e hi]
    rw [evalArgs]
    cases he : eval henv d.store d.visited e d.w with
    | mk o w =>
      cases o with
      | err k => exact ⟨.nil, .nil, .nil, by simp⟩
      | panic q => exact ⟨.nil, .nil, .nil, by simp⟩
      | ok v =>
        obtain ⟨b2, b3, b4, h⟩ := ih (pre ++ [e]) (acc ++ [v]) { d with w := w } (.int pre.length) (.val v) .nil a5
        refine ⟨b2, b3, b4, ?_⟩
        simp only [List.length_append, List.length_cons, List.length_nil, List.append_assoc, List.cons_append, List.nil_append] at h
        simp only [h]
        cases hr : evalArgs henv d.store d.visited rest w with
        | mk o2 w2 => cases o2 <;> simp

theorem call_post (user : User σ π μ) (stack : List SQ) (last : Option Stmt) (d : Data σ π) (f : String) (es : List Expr)
    (vs : List Value) (b2 b3 b4 a5 : GV μ) :
    execSs henv mkp prog user .dr [.callS f es, .vals vs, b2, b3, b4, a5] callPost ⟨d, stack, last⟩ =
      match callFn henv d.visited f vs d.w with
      | (.ok _, w) => .ret [.nil] ⟨{ d with w := w }, stack, last⟩
      | (.err _, w) => .ret [.err] ⟨{ d with w := w }, stack, last⟩
      | (.panic q, w) => .panic q ⟨{ d with w := w }, stack, last⟩ := by
  simp only [callPost, fn_executeCallStatement, beforeRange, fromRange, List.takeWhile, List.dropWhile, isRange, Bool.not_false, Bool.not_true, List.drop]
  cases hc : callFn henv d.visited f vs d.w with
  | mk o w =>
    cases o with
    | ok r => cases r <;> ir_simp [hc]
    | err k => ir_simp [hc]
    | panic q => ir_simp [hc]

/-- `executeCallStatement` is the `.call` case of `exec`: the arguments evaluated in order, then the function called
once through the function storer; its result is dropped, its error is the statement's error -/
theorem executeCallStatement_is_model (user : User σ π μ) (d : Data σ π) (stack : List SQ) (last : Option Stmt)
    (f : String) (es : List Expr) :
    callDef henv mkp prog user src "executeCallStatement" .dr [.callS f es] ⟨d, stack, last⟩ =
      helperRes (exec henv mkp prog d (.call f es)) stack last := by
  simp only [callDef, find_call, call_shape, execSs_append]
  have hpre := call_pre henv mkp prog user stack last d f es
  simp [fn_executeCallStatement] at hpre ⊢
  rw [hpre]
  obtain ⟨b2, b3, b4, hl⟩ := call_loop henv mkp prog user stack last f es [] [] d .nil .nil .nil .nil
  simp only [List.length_nil, List.nil_append] at hl
  simp [execSs, execS, evalE, field, fieldPure, rangeItems, hl]
  cases hr : evalArgs henv d.store d.visited es d.w with
  | mk o w =>
    cases o with
    | err k => simp [exec, hr, helperRes, applyCtlR]
    | panic q => simp [exec, hr, helperRes, applyCtlR]
    | ok vs =>
      simp only []
      rw [call_post]
      cases hc : callFn henv d.visited f vs w with
      | mk o2 w2 => cases o2 <;> simp [exec, hr, hc, helperRes, applyCtlR]

/-! ### Snapshot, RestoreAt (C07) -/

/-- `Snapshot()` returns the entry checkpoint, the current node, the visit counters — and changes nothing -/
theorem snapshot_is_model (user : User σ π μ) (g : GR σ π) :
    callDef henv mkp prog user src "Snapshot" .dr [] g = .ret [.snap (R.snapshot g.abs)] g := by
  obtain ⟨d, stack, last⟩ := g
  simp only [callDef, find_snapshot, fn_Snapshot]
  ir_simp [R.snapshot, GR.abs]

theorem set_absent {β} (m : Map β) (k : String) (v : β) (h : ∀ x ∈ m, x.1 ≠ k) : m.set k v = m ++ [(k, v)] := by
  induction m with
  | nil => simp [Map.set]
  | cons a t ih =>
    obtain ⟨k', w⟩ := a
    have hk : ¬ k' = k := h (k', w) (by simp)
    simp [Map.set, hk, ih (fun x hx => h x (by simp [hx]))]

/-- writing the entries of a Go map (distinct keys) one by one into a store rebuilds that map -/
theorem foldl_set (l : Store) : ∀ (m : Store), ((m ++ l).map (·.1)).Nodup →
    l.foldl (fun m kv => m.set kv.1 kv.2) m = m ++ l := by
  induction l with
  | nil => intro m _; simp
  | cons a l ih =>
    intro m h
    obtain ⟨k, v⟩ := a
    have hk : ∀ x ∈ m, x.1 ≠ k := by
      intro x hx e
      simp only [List.map_append, List.map_cons, List.nodup_append] at h
      exact h.2.2 x.1 (List.mem_map_of_mem hx) k (by simp) e
    simp only [List.foldl_cons, set_absent m k v hk]
    rw [ih]
    · simp
    · simpa using h

def restPre : List GS := beforeRange fn_RestoreAt.body
def restBody : List GS := match fromRange fn_RestoreAt.body with | s :: _ => rangeBody s | [] => []
def restPost : List GS := (fromRange fn_RestoreAt.body).drop 1

theorem rest_shape : fn_RestoreAt.body =
    restPre ++ (.range (some 3) (some 4) (.sel (.loc 0) "Variables") restBody :: restPost) := rfl

theorem rest_body (user : User σ π μ) (stack : List SQ) (last : Option Stmt) (d : Data σ π) (k : String) (v : Value)
    (a0 a1 a2 : GV μ) :
    execSs henv mkp prog user .dr [a0, a1, a2, .str k, .val v] restBody ⟨d, stack, last⟩ =
      .norm [a0, a1, a2, .str k, .val v] ⟨{ d with store := d.store.set k v }, stack, last⟩ := by
  simp only [restBody, fn_RestoreAt, beforeRange, fromRange, List.takeWhile, List.dropWhile, isRange, Bool.not_false, Bool.not_true, List.drop, rangeBody]
  cases v <;> ir_simp []

theorem rest_loop (user : User σ π μ) (stack : List SQ) (last : Option Stmt) (l : Store) :
    ∀ (d : Data σ π) (a0 a1 a2 a3 a4 : GV μ),
    ∃ b3 b4, loop (fun env g => execSs henv mkp prog user .dr env restBody g) (some 3) (some 4)
        (l.map (fun kv => (.str kv.1, .val kv.2))) [a0, a1, a2, a3, a4] ⟨d, stack, last⟩ =
      .norm [a0, a1, a2, b3, b4] ⟨{ d with store := l.foldl (fun m kv => m.set kv.1 kv.2) d.store }, stack, last⟩ := by
  induction l with
  | nil => intro d a0 a1 a2 a3 a4; exact ⟨a3, a4, by simp [loop]⟩
  | cons kv l ih =>
    intro d a0 a1 a2 a3 a4
    obtain ⟨b3, b4, h⟩ := ih { d with store := d.store.set kv.1 kv.2 } a0 a1 a2 (.str kv.1) (.val kv.2)
    exact ⟨b3, b4, by simpa [loop, setOpt, rest_body] using h⟩

/-- `RestoreAt` is `R.restore`: an unknown node is an error and NOTHING has changed; otherwise every component is
rebuilt from the snapshot and the node — variables (cleared, then written entry by entry), visit counters, checkpoint,
the stack (cleared, then the node's queue), the node —, and the pending choice and the pending command are forgotten.
(`hs`: a Go map has each key once. The ghost `jumpLog` is not in the code.) -/
theorem restoreAt_is_model (user : User σ π μ) (g : GR σ π) (s : Snapshot) (hs : (s.vars.map (·.1)).Nodup) :
    callDef henv mkp prog user src "RestoreAt" .dr [.snap s] g =
      match R.restore prog g.abs s with
      | none => .ret [.err] g
      | some r => .ret [.nil] ⟨{ r.d with jumpLog := g.d.jumpLog }, r.stack, none⟩ := by
  obtain ⟨d, stack, last⟩ := g
  simp only [callDef, find_restore, rest_shape, execSs_append]
  cases hf : prog.find s.node with
  | none =>
    simp only [restPre, fn_RestoreAt, beforeRange, fromRange, List.takeWhile, List.dropWhile, isRange, Bool.not_false, Bool.not_true, List.take]
    ir_simp [hf, R.restore, GR.abs]
  | some n =>
    have hpre : execSs henv mkp prog user .dr [.snap s, .nil, .nil, .nil, .nil] restPre ⟨d, stack, last⟩ =
        .norm [.snap s, .node n, .bool true, .nil, .nil]
          ⟨{ d with visited := s.visited, snapVars := s.vars, pending := none, store := [] }, stack, none⟩ := by
      simp only [restPre, fn_RestoreAt, beforeRange, fromRange, List.takeWhile, List.dropWhile, isRange, Bool.not_false, Bool.not_true, List.take]
      ir_simp [hf]
    simp [fn_RestoreAt] at hpre ⊢
    rw [hpre]
    obtain ⟨b3, b4, hl⟩ := rest_loop henv mkp prog user stack none s.vars
      { d with visited := s.visited, snapVars := s.vars, pending := none, store := [] } (.snap s) (.node n) (.bool true) .nil .nil
    simp [execSs, execS, evalE, field, fieldPure, rangeItems, hl]
    simp only [restPost, fn_RestoreAt, beforeRange, fromRange, List.takeWhile, List.dropWhile, isRange, Bool.not_false, Bool.not_true, List.drop]
    have hfold := foldl_set s.vars [] (by simpa using hs)
    ir_simp [hf, R.restore, GR.abs, hfold]


/-! ### Next -/

/-- the locals of `Next` on entry of its segments: the choice, five locals, seventeen not yet assigned -/
def envN (c : Nat) (a1 a2 a3 a4 a5 : GV μ) : List (GV μ) :=
  [.int c, a1, a2, a3, a4, a5, .nil, .nil, .nil, .nil, .nil, .nil, .nil, .nil, .nil, .nil, .nil, .nil, .nil, .nil, .nil, .nil, .nil]

def nextPoll : List GS := fn_Next.body.take 1
def nextChoice : List GS := (fn_Next.body.drop 1).take 1
def nextFetch : List GS := (fn_Next.body.drop 2).take 5
def nextSwitch : List GS := fn_Next.body.drop 7

theorem next_shape : fn_Next.body = nextPoll ++ (nextChoice ++ (nextFetch ++ nextSwitch)) := rfl

/-- the `select` with `default` at the top of `Next` is `poll` -/
theorem next_poll (user : User σ π μ) (c : Nat) (d : Data σ π) (stack : List SQ) (last : Option Stmt) :
    ∃ b1, execSs henv mkp prog user .dr (envN c .nil .nil .nil .nil .nil) nextPoll ⟨d, stack, last⟩ =
      match poll (μ := μ) d with
      | (d', none) => .norm (envN c b1 .nil .nil .nil .nil) ⟨d', stack, last⟩
      | (d', some (.ok _)) => .ret [.nil, .errWaiting] ⟨d', stack, last⟩
      | (d', some (.err _)) => .ret [.nil, .err] ⟨d', stack, last⟩
      | (d', some (.panic q)) => .panic q ⟨d', stack, last⟩ := by
  simp only [nextPoll, fn_Next, List.take]
  cases hp : d.pending with
  | none => exact ⟨.nil, by ir_simp [hp, poll, envN]⟩
  | some o =>
    cases o with
    | none => exact ⟨.nil, by ir_simp [hp, poll, envN]⟩
    | some f => cases f <;> exact ⟨.nil, by ir_simp [hp, poll, envN]⟩

/-- the choice block: nothing unless the last statement is an option group; then the chosen body is pushed (unless
empty) and the choice is forgotten; an index out of range panics before anything is changed -/
theorem next_choice (user : User σ π μ) (c : Nat) (d : Data σ π) (stack : List SQ) (last : Option Stmt) (b1 : GV μ)
    (hw : ∀ d stack last, user "isWaitingForChoice" .dr [] ⟨d, stack, last⟩ =
      .ret [.bool ((GR.abs ⟨d, stack, last⟩).waiting.isSome)] ⟨d, stack, last⟩) :
    ∃ b2, execSs henv mkp prog user .dr (envN c b1 .nil .nil .nil .nil) nextChoice ⟨d, stack, last⟩ =
      match last.bind isOpts with
      | none => .norm (envN c b1 b2 .nil .nil .nil) ⟨d, stack, last⟩
      | some bodies =>
        (match bodies[c]? with
         | none => .panic .index ⟨d, stack, last⟩
         | some b => if b.length ≠ 0 then .norm (envN c b1 b2 .nil .nil .nil) ⟨d, ⟨b, 0⟩ :: stack, none⟩
                     else .norm (envN c b1 b2 .nil .nil .nil) ⟨d, stack, none⟩) := by
  simp only [nextChoice, fn_Next, List.take, List.drop]
  cases last with
  | none => exact ⟨.nil, by ir_simp [hw, GR.abs, envN]⟩
  | some s =>
    cases s with
    | opts os =>
      cases ho : os[c]? with
      | none => exact ⟨.nil, by ir_simp [hw, GR.abs, envN, isOpts, ho]⟩
      | some lb =>
        obtain ⟨l, b⟩ := lb
        cases hb : (b.length == 0) with
        | true => have h : b.length = 0 := by simpa using hb
                  have h' : b = [] := by simpa using h
                  exact ⟨.stmts b, by ir_simp [hw, GR.abs, envN, isOpts, ho, hb, h, h']⟩
        | false => have h : ¬ b.length = 0 := by simpa using hb
                   have h' : ¬ b = [] := by simpa using h
                   exact ⟨.stmts b, by ir_simp [hw, GR.abs, envN, isOpts, ho, hb, h, h']⟩
    | line l => exact ⟨.nil, by ir_simp [hw, GR.abs, envN, isOpts]⟩
    | set v o e => exact ⟨.nil, by ir_simp [hw, GR.abs, envN, isOpts]⟩
    | jump e => exact ⟨.nil, by ir_simp [hw, GR.abs, envN, isOpts]⟩
    | ifs cs => exact ⟨.nil, by ir_simp [hw, GR.abs, envN, isOpts]⟩
    | cmd es => exact ⟨.nil, by ir_simp [hw, GR.abs, envN, isOpts]⟩
    | call f es => exact ⟨.nil, by ir_simp [hw, GR.abs, envN, isOpts]⟩
    | empty => exact ⟨.nil, by ir_simp [hw, GR.abs, envN, isOpts]⟩

/-- end of the dialogue, or the next statement of the top queue fetched (pointer advanced, `lastStatement` set), or an
exhausted queue popped and `Next` called again -/
theorem next_fetch (user : User σ π μ) (c : Nat) (d : Data σ π) (stack : List SQ) (last : Option Stmt) (b1 b2 : GV μ)
    (hn : ∀ d q rest last, user "nextStatement" (.qref rest.length) [] ⟨d, q :: rest, last⟩ =
      match q.stmts[q.ptr]? with
      | none => .ret [.nil, .bool false] ⟨d, q :: rest, last⟩
      | some s => .ret [.stmt s, .bool true] ⟨d, { q with ptr := q.ptr + 1 } :: rest, last⟩) :
    execSs henv mkp prog user .dr (envN c b1 b2 .nil .nil .nil) nextFetch ⟨d, stack, last⟩ =
      match stack with
      | [] => .ret [.nil, .nil] ⟨d, [], last⟩
      | q :: rest =>
        (match q.stmts[q.ptr]? with
         | none => .tail [.int c] ⟨d, rest, last⟩
         | some st => .norm (envN c b1 b2 (.qref rest.length) (.stmt st) (.bool true))
                        ⟨d, { q with ptr := q.ptr + 1 } :: rest, some st⟩) := by
  simp only [nextFetch, fn_Next, List.take, List.drop]
  cases stack with
  | nil => ir_simp [envN]
  | cons q rest =>
    cases hq : q.stmts[q.ptr]? with
    | none => ir_simp [envN, hn, hq]
    | some st => ir_simp [envN, hn, hq]


def iteThn : GS → List GS | .ite _ _ t _ => t | _ => []
def iteEls : GS → List GS | .ite _ _ _ e => e | _ => []
def hd (l : List GS) : GS := match l with | s :: _ => s | [] => .unsupported "empty"

def lineBranch : List GS := iteThn (hd nextSwitch)
def optBranch : List GS := iteThn (hd (iteEls (hd nextSwitch)))
def otherBranch : List GS := iteEls (hd (iteEls (hd nextSwitch)))
def finalRet : List GS := nextSwitch.drop 1

theorem switch_shape : nextSwitch =
    .ite [] (.bin "!=" (.sel (.loc 4) "LineStatement") .nilE) lineBranch
      [.ite [] (.bin "!=" (.sel (.loc 4) "ShortcutOptionStatement") .nilE) optBranch otherBranch] :: finalRet := rfl

/-- errors are compared as errors -/
def eraseKind {α} : Outcome α → Outcome α | .err _ => .err .other | o => o

/-- what one pass of `Next` over the statement `st` returns and leaves behind, read off the model's `exec` -/
def stepRes (c : Nat) (x : Data σ π × Ctl × Option (Outcome (Elem μ))) (stk : List SQ) (st : Stmt) : SRes σ π μ :=
  match x.2.2 with
  | none => .tail [.int c] ⟨x.1, applyCtlR x.2.1 stk, some st⟩
  | some (.ok .ended) => .ret [.nil, .nil] ⟨x.1, applyCtlR x.2.1 stk, some st⟩
  | some (.ok .waiting) => .ret [.nil, .errWaiting] ⟨x.1, applyCtlR x.2.1 stk, some st⟩
  | some (.ok e) => .ret [.elem e, .nil] ⟨x.1, applyCtlR x.2.1 stk, some st⟩
  | some (.err _) => .ret [.nil, .err] ⟨x.1, applyCtlR x.2.1 stk, if (isOpts st).isSome then none else some st⟩
  | some (.panic q) => .panic q ⟨x.1, applyCtlR x.2.1 stk, some st⟩

theorem renderLine_elems (st : Store) (vis : Map Nat) (l : LineSpec) (w : W σ) (ms : π) :
    renderLine henv mkp st vis { elems := l.elems } w ms = renderLine henv mkp st vis l w ms := by
  simp [renderLine]

theorem switch_line (user : User σ π μ) (c : Nat) (d : Data σ π) (stk : List SQ) (a1 a2 a3 a5 : GV μ) (l : LineSpec) :
    execSs henv mkp prog user .dr (envN c a1 a2 a3 (.stmt (.line l)) a5) nextSwitch ⟨d, stk, some (.line l)⟩ =
      stepRes c (exec henv mkp prog d (.line l)) stk (.line l) := by
  rw [switch_shape]
  simp only [lineBranch, nextSwitch, fn_Next, List.drop, hd, iteThn]
  cases hr : renderLine henv mkp d.store d.visited l d.w d.ms with
  | mk o wm =>
    obtain ⟨w, ms⟩ := wm
    cases o <;> ir_simp [envN, renderLine_elems, hr, exec, stepRes, applyCtlR, isOpts]

theorem execSs_nil (user : User σ π μ) (self : GV μ) (env : List (GV μ)) (g : GR σ π) :
    execSs henv mkp prog user self env [] g = .norm env g := by simp [execSs]
theorem execSs_single (user : User σ π μ) (self : GV μ) (env : List (GV μ)) (s : GS) (g : GR σ π) :
    execSs henv mkp prog user self env [s] g = execS henv mkp prog user self env s g := by
  simp only [execSs]; cases execS henv mkp prog user self env s g <;> rfl
theorem execSs_cons' (user : User σ π μ) (self : GV μ) (env : List (GV μ)) (s : GS) (ss : List GS) (g : GR σ π) :
    execSs henv mkp prog user self env (s :: ss) g =
      match execS henv mkp prog user self env s g with
      | .norm env g => execSs henv mkp prog user self env ss g
      | r => r := by
  simp only [execSs]
  cases execS henv mkp prog user self env s g <;> rfl

/-- a statement that is neither a line nor an option group goes to the rest of the chain -/
theorem switch_other (user : User σ π μ) (c : Nat) (d : Data σ π) (stk : List SQ) (a1 a2 a3 a5 : GV μ) (st : Stmt)
    (hl : ∀ l, st ≠ .line l) (ho : ∀ os, st ≠ .opts os) :
    execSs henv mkp prog user .dr (envN c a1 a2 a3 (.stmt st) a5) nextSwitch ⟨d, stk, some st⟩ =
      match execSs henv mkp prog user .dr (envN c a1 a2 a3 (.stmt st) a5) otherBranch ⟨d, stk, some st⟩ with
      | .norm env g => execSs henv mkp prog user .dr env finalRet g
      | r => r := by
  rw [switch_shape, execSs_cons']
  cases st with
  | line l => exact absurd rfl (hl l)
  | opts os => exact absurd rfl (ho os)
  | set v o e => simp [execSs_nil, execSs_single, execS, evalE, envN, field, fieldPure, binop, veq, isNil]
  | jump e => simp [execSs_nil, execSs_single, execS, evalE, envN, field, fieldPure, binop, veq, isNil]
  | ifs cs => simp [execSs_nil, execSs_single, execS, evalE, envN, field, fieldPure, binop, veq, isNil]
  | cmd es => simp [execSs_nil, execSs_single, execS, evalE, envN, field, fieldPure, binop, veq, isNil]
  | call f es => simp [execSs_nil, execSs_single, execS, evalE, envN, field, fieldPure, binop, veq, isNil]
  | empty => simp [execSs_nil, execSs_single, execS, evalE, envN, field, fieldPure, binop, veq, isNil]

/-- the rest of the chain: set, jump, if, command, call (and declare, which no model statement is), each through its
helper; a statement with no field set falls through to the final error -/
theorem switch_rest (user : User σ π μ) (c : Nat) (d : Data σ π) (stk : List SQ) (a1 a2 a3 a5 : GV μ) (st : Stmt)
    (hl : ∀ l, st ≠ .line l) (ho : ∀ os, st ≠ .opts os) (hp : d.pending = none)
    (hset : ∀ d stack last v op e, user "executeSetStatement" .dr [.setS v op e] ⟨d, stack, last⟩ =
      helperRes (exec henv mkp prog d (.set v op e)) stack last)
    (hjump : ∀ d stack last e, user "executeJumpStatement" .dr [.jumpS e] ⟨d, stack, last⟩ =
      helperRes (keepLog d.jumpLog (exec henv mkp prog d (.jump e))) stack last)
    (hif : ∀ d stack last cs, user "executeIfStatement" .dr [.ifS cs] ⟨d, stack, last⟩ =
      helperRes (exec henv mkp prog d (.ifs cs)) stack last)
    (hcmd : ∀ d stack last es, user "executeCommandStatement" .dr [.cmdS es] ⟨d, stack, last⟩ =
      cmdRes (exec henv mkp prog d (.cmd es)) stack last)
    (hcall : ∀ d stack last f es, user "executeCallStatement" .dr [.callS f es] ⟨d, stack, last⟩ =
      helperRes (exec henv mkp prog d (.call f es)) stack last) :
    execSs henv mkp prog user .dr (envN c a1 a2 a3 (.stmt st) a5) nextSwitch ⟨d, stk, some st⟩ =
      stepRes c (keepLog d.jumpLog (exec henv mkp prog d st)) stk st := by
  rw [switch_other henv mkp prog user c d stk a1 a2 a3 a5 st hl ho]
  simp only [otherBranch, finalRet, nextSwitch, fn_Next, List.drop, hd, iteEls]
  cases st with
  | line l => exact absurd rfl (hl l)
  | opts os => exact absurd rfl (ho os)
  | empty => ir_simp [envN, exec, stepRes, keepLog, applyCtlR, isOpts]
  | set v o e =>
    cases he : eval henv d.store d.visited e d.w with
    | mk r w =>
      cases r with
      | err k => ir_simp [envN, hset, exec, he, helperRes, stepRes, keepLog, applyCtlR, isOpts]
      | panic q => ir_simp [envN, hset, exec, he, helperRes, stepRes, keepLog, applyCtlR, isOpts]
      | ok x =>
        cases ha : applyAssign o (d.store.get v) x <;>
          ir_simp [envN, hset, exec, he, ha, helperRes, stepRes, keepLog, applyCtlR, isOpts]
  | jump e =>
    cases he : eval henv d.store d.visited e d.w with
    | mk r w =>
      cases r with
      | err k => ir_simp [envN, hjump, exec, he, helperRes, stepRes, keepLog, applyCtlR, isOpts]
      | panic q => ir_simp [envN, hjump, exec, he, helperRes, stepRes, keepLog, applyCtlR, isOpts]
      | ok x =>
        cases x with
        | num a => ir_simp [envN, hjump, exec, he, helperRes, stepRes, keepLog, applyCtlR, isOpts]
        | bool a => ir_simp [envN, hjump, exec, he, helperRes, stepRes, keepLog, applyCtlR, isOpts]
        | str t =>
          cases hf : prog.find t <;>
            ir_simp [envN, hjump, exec, he, hf, helperRes, stepRes, keepLog, applyCtlR, isOpts]
  | ifs cs =>
    cases hf : firstTrue henv d.store d.visited cs d.w with
    | mk r w =>
      cases r with
      | err k => ir_simp [envN, hif, exec, hf, helperRes, stepRes, keepLog, applyCtlR, isOpts]
      | panic q => ir_simp [envN, hif, exec, hf, helperRes, stepRes, keepLog, applyCtlR, isOpts]
      | ok x => cases x <;> ir_simp [envN, hif, exec, hf, helperRes, stepRes, keepLog, applyCtlR, isOpts]
  | call f es =>
    cases hr : evalArgs henv d.store d.visited es d.w with
    | mk r w =>
      cases r with
      | err k => ir_simp [envN, hcall, exec, hr, helperRes, stepRes, keepLog, applyCtlR, isOpts]
      | panic q => ir_simp [envN, hcall, exec, hr, helperRes, stepRes, keepLog, applyCtlR, isOpts]
      | ok vs =>
        cases hc : callFn henv d.visited f vs w with
        | mk r2 w2 => cases r2 <;> ir_simp [envN, hcall, exec, hr, hc, helperRes, stepRes, keepLog, applyCtlR, isOpts]
  | cmd es =>
    cases es with
    | nil => ir_simp [envN, hcmd, exec, cmdRes, stepRes, keepLog, applyCtlR, isOpts]
    | cons e0 es0 =>
      cases hr : evalArgs henv d.store d.visited (e0 :: es0) d.w with
      | mk r w =>
        cases r with
        | err k => ir_simp [envN, hcmd, exec, hr, cmdRes, stepRes, keepLog, applyCtlR, isOpts]
        | panic q => ir_simp [envN, hcmd, exec, hr, cmdRes, stepRes, keepLog, applyCtlR, isOpts]
        | ok vs =>
          cases vs with
          | nil => ir_simp [envN, hcmd, exec, hr, cmdRes, stepRes, keepLog, applyCtlR, isOpts]
          | cons v args =>
            cases v with
            | num a => ir_simp [envN, hcmd, exec, hr, cmdRes, stepRes, keepLog, applyCtlR, isOpts]
            | bool a => ir_simp [envN, hcmd, exec, hr, cmdRes, stepRes, keepLog, applyCtlR, isOpts]
            | str name =>
              by_cases hs : name = "stop"
              · ir_simp [envN, hcmd, exec, hr, hs, cmdRes, stepRes, keepLog, applyCtlR, isOpts]
              · cases hc : henv.cmd name args w.host with
                | mk o h' => cases o <;> ir_simp [envN, hcmd, exec, hr, hs, hc, hp, cmdRes, stepRes, keepLog, applyCtlR, isOpts]

/-! #### the option group -/

def optPre : List GS := optBranch.take 1
def optBody : List GS := match optBranch.drop 1 with | s :: _ => rangeBody s | [] => []
def optPost : List GS := optBranch.drop 2

theorem opt_shape : optBranch = optPre ++
    (.range (some 9) (some 10) (.sel (.sel (.loc 4) "ShortcutOptionStatement") "Options") optBody :: optPost) := rfl

/-- one option of `renderOptions`: its line through the markup pass, then its condition -/
def optStep (st : Store) (vis : Map Nat) (l : LineSpec) (w : W σ) (ms : π) : Outcome (μ × List String × Bool) × W σ × π :=
  match renderLine henv mkp st vis l w ms with
  | (.ok t, w, ms) =>
    (match l.cond with
     | none => (.ok (t, l.tags, false), w, ms)
     | some cnd =>
       (match eval henv st vis cnd w with
        | (.ok (.bool bb), w) => (.ok (t, l.tags, !bb), w, ms)
        | (.ok _, w) => (.err .illTyped, w, ms)
        | (.err k, w) => (.err k, w, ms)
        | (.panic q, w) => (.panic q, w, ms)))
  | (.err k, w, ms) => (.err k, w, ms)
  | (.panic q, w, ms) => (.panic q, w, ms)

theorem renderOptions_cons (st : Store) (vis : Map Nat) (l : LineSpec) (b : List Stmt) (os : List (LineSpec × List Stmt))
    (w : W σ) (ms : π) :
    renderOptions henv mkp st vis ((l, b) :: os) w ms =
      match optStep henv mkp st vis l w ms with
      | (.ok o, w', ms') =>
        (match renderOptions henv mkp st vis os w' ms' with
         | (.ok r, w, ms) => (.ok (o :: r), w, ms)
         | r => r)
      | (.err k, w', ms') => (.err k, w', ms')
      | (.panic q, w', ms') => (.panic q, w', ms') := by
  rw [renderOptions]
  simp only [optStep]
  cases hr : renderLine henv mkp st vis l w ms with
  | mk o wm =>
    obtain ⟨w1, ms1⟩ := wm
    cases o with
    | err k => simp
    | panic q => simp
    | ok t =>
      cases hc : l.cond with
      | none =>
        simp
        cases renderOptions henv mkp st vis os w1 ms1 with
        | mk o3 wm => obtain ⟨w3, ms3⟩ := wm; cases o3 <;> rfl
      | some cnd =>
        cases he : eval henv st vis cnd w1 with
        | mk o2 w2 =>
          cases o2 with
          | err k => simp [he]
          | panic q => simp [he]
          | ok v =>
            cases v with
            | num x => simp [he]
            | str x => simp [he]
            | bool bb =>
              simp [he]
              cases renderOptions henv mkp st vis os w2 ms1 with
              | mk o3 wm => obtain ⟨w3, ms3⟩ := wm; cases o3 <;> rfl

theorem opt_body (user : User σ π μ) (c : Nat) (d : Data σ π) (stk : List SQ) (last : Option Stmt)
    (a1 a2 a3 a4 a5 a6 a7 a11 a12 a13 a14 a15 : GV μ) (acc : List (μ × List String × Bool)) (i : Nat) (l : LineSpec) (b : List Stmt) :
    ∃ b11 b12 b13 b14 b15,
    execSs henv mkp prog user .dr [.int c, a1, a2, a3, a4, a5, a6, a7, .optVs (acc), .int i, .opt (l, b), a11, a12, a13, a14, a15, .nil, .nil, .nil, .nil, .nil, .nil, .nil] optBody ⟨d, stk, last⟩ =
      match optStep henv mkp d.store d.visited l d.w d.ms with
      | (.ok o, w, ms) => .norm [.int c, a1, a2, a3, a4, a5, a6, a7, .optVs (acc ++ [o]), .int i, .opt (l, b), b11, b12, b13, b14, b15, .nil, .nil, .nil, .nil, .nil, .nil, .nil] ⟨{ d with w := w, ms := ms }, stk, last⟩
      | (.err _, w, ms) => .ret [.nil, .err] ⟨{ d with w := w, ms := ms }, stk, none⟩
      | (.panic q, w, ms) => .panic q ⟨{ d with w := w, ms := ms }, stk, last⟩ := by
  simp only [optBody, optBranch, nextSwitch, fn_Next, List.drop, hd, iteThn, iteEls, rangeBody, optStep]
  cases hr : renderLine henv mkp d.store d.visited l d.w d.ms with
  | mk o wm =>
    obtain ⟨w1, ms1⟩ := wm
    cases o with
    | err k => exact ⟨.nil, .nil, .nil, .nil, .nil, by ir_simp [renderLine_elems, hr]⟩
    | panic q => exact ⟨.nil, .nil, .nil, .nil, .nil, by ir_simp [renderLine_elems, hr]⟩
    | ok t =>
      cases hc : l.cond with
      | none => exact ⟨.mk t, .nil, .bool false, a14, a15, by ir_simp [renderLine_elems, hr, hc]⟩
      | some cnd =>
        cases he : eval henv d.store d.visited cnd w1 with
        | mk o2 w2 =>
          cases o2 with
          | err k => exact ⟨.nil, .nil, .nil, .nil, .nil, by ir_simp [renderLine_elems, hr, hc, he]⟩
          | panic q => exact ⟨.nil, .nil, .nil, .nil, .nil, by ir_simp [renderLine_elems, hr, hc, he]⟩
          | ok v =>
            cases v with
            | num x => exact ⟨.nil, .nil, .nil, .nil, .nil, by ir_simp [renderLine_elems, hr, hc, he]⟩
            | str x => exact ⟨.nil, .nil, .nil, .nil, .nil, by ir_simp [renderLine_elems, hr, hc, he]⟩
            | bool bb => exact ⟨.mk t, .nil, .bool (!bb), .val (.bool bb), .nil, by ir_simp [renderLine_elems, hr, hc, he]⟩

theorem opt_loop (user : User σ π μ) (c : Nat) (stk : List SQ) (last : Option Stmt) (a1 a2 a3 a4 a5 a6 a7 : GV μ)
    (os : List (LineSpec × List Stmt)) :
    ∀ (n : Nat) (acc : List (μ × List String × Bool)) (d : Data σ π) (a9 a10 a11 a12 a13 a14 a15 : GV μ),
    ∃ b9 b10 b11 b12 b13 b14 b15,
    loop (fun env g => execSs henv mkp prog user .dr env optBody g) (some 9) (some 10)
        (RunnerIR.enumFrom .int n (os.map .opt)) [.int c, a1, a2, a3, a4, a5, a6, a7, .optVs (acc), a9, a10, a11, a12, a13, a14, a15, .nil, .nil, .nil, .nil, .nil, .nil, .nil] ⟨d, stk, last⟩ =
      match renderOptions henv mkp d.store d.visited os d.w d.ms with
      | (.ok r, w, ms) => .norm [.int c, a1, a2, a3, a4, a5, a6, a7, .optVs (acc ++ r), b9, b10, b11, b12, b13, b14, b15, .nil, .nil, .nil, .nil, .nil, .nil, .nil] ⟨{ d with w := w, ms := ms }, stk, last⟩
      | (.err _, w, ms) => .ret [.nil, .err] ⟨{ d with w := w, ms := ms }, stk, none⟩
      | (.panic q, w, ms) => .panic q ⟨{ d with w := w, ms := ms }, stk, last⟩ := by
  induction os with
  | nil =>
    intro n acc d a9 a10 a11 a12 a13 a14 a15
    exact ⟨a9, a10, a11, a12, a13, a14, a15, by simp [loop, RunnerIR.enumFrom, renderOptions]⟩
  | cons lb os ih =>
    intro n acc d a9 a10 a11 a12 a13 a14 a15
    obtain ⟨l, b⟩ := lb
    obtain ⟨c11, c12, c13, c14, c15, hb⟩ := opt_body henv mkp prog user c d stk last a1 a2 a3 a4 a5 a6 a7 a11 a12 a13 a14 a15 acc n l b
    simp only [List.map_cons, RunnerIR.enumFrom, loop, setOpt, List.set, hb, renderOptions_cons]
    cases hs : optStep henv mkp d.store d.visited l d.w d.ms with
    | mk o wm =>
      obtain ⟨w1, ms1⟩ := wm
      cases o with
      | err k => exact ⟨.nil, .nil, .nil, .nil, .nil, .nil, .nil, by simp⟩
      | panic q => exact ⟨.nil, .nil, .nil, .nil, .nil, .nil, .nil, by simp⟩
      | ok o =>
        obtain ⟨b9, b10, b11, b12, b13, b14, b15, h⟩ := ih (n + 1) (acc ++ [o]) { d with w := w1, ms := ms1 } (.int n) (.opt (l, b)) c11 c12 c13 c14 c15
        refine ⟨b9, b10, b11, b12, b13, b14, b15, ?_⟩
        simp only [] at h ⊢
        rw [h]
        cases renderOptions henv mkp d.store d.visited os w1 ms1 with
        | mk o3 wm => obtain ⟨w3, ms3⟩ := wm; cases o3 <;> simp

theorem opt_pre (user : User σ π μ) (c : Nat) (d : Data σ π) (stk : List SQ) (last : Option Stmt) (a1 a2 a3 a5 : GV μ)
    (os : List (LineSpec × List Stmt)) :
    execSs henv mkp prog user .dr (envN c a1 a2 a3 (.stmt (.opts os)) a5) optPre ⟨d, stk, last⟩ =
      .norm [.int c, a1, a2, a3, (.stmt (.opts os)), a5, .nil, .nil, .optVs ([]), .nil, .nil, .nil, .nil, .nil, .nil, .nil, .nil, .nil, .nil, .nil, .nil, .nil, .nil] ⟨d, stk, last⟩ := by
  simp only [optPre, optBranch, nextSwitch, fn_Next, List.drop, List.take, hd, iteThn, iteEls]
  ir_simp [envN]

theorem opt_post (user : User σ π μ) (c : Nat) (d : Data σ π) (stk : List SQ) (last : Option Stmt) (a1 a2 a3 a5 : GV μ)
    (os : List (LineSpec × List Stmt)) (r : List (μ × List String × Bool)) (b9 b10 b11 b12 b13 b14 b15 : GV μ) :
    execSs henv mkp prog user .dr [.int c, a1, a2, a3, (.stmt (.opts os)), a5, .nil, .nil, .optVs (r), b9, b10, b11, b12, b13, b14, b15, .nil, .nil, .nil, .nil, .nil, .nil, .nil] optPost ⟨d, stk, last⟩ =
      .ret [.elem (.options d.cur r), .nil] ⟨d, stk, last⟩ := by
  simp only [optPost, optBranch, nextSwitch, fn_Next, List.drop, hd, iteThn, iteEls]
  ir_simp []

theorem switch_opts (user : User σ π μ) (c : Nat) (d : Data σ π) (stk : List SQ) (a1 a2 a3 a5 : GV μ)
    (os : List (LineSpec × List Stmt)) :
    execSs henv mkp prog user .dr (envN c a1 a2 a3 (.stmt (.opts os)) a5) nextSwitch ⟨d, stk, some (.opts os)⟩ =
      stepRes c (exec henv mkp prog d (.opts os)) stk (.opts os) := by
  have hsw : execSs henv mkp prog user .dr (envN c a1 a2 a3 (.stmt (.opts os)) a5) nextSwitch ⟨d, stk, some (.opts os)⟩ =
      match execSs henv mkp prog user .dr (envN c a1 a2 a3 (.stmt (.opts os)) a5) optBranch ⟨d, stk, some (.opts os)⟩ with
      | .norm env g => execSs henv mkp prog user .dr env finalRet g
      | r => r := by
    rw [switch_shape, execSs_cons']
    simp [execSs_nil, execSs_single, execS, evalE, envN, field, fieldPure, binop, veq, isNil]
  rw [hsw, opt_shape, execSs_append, opt_pre]
  simp only []
  rw [execSs_cons']
  obtain ⟨b9, b10, b11, b12, b13, b14, b15, hl⟩ := opt_loop henv mkp prog user c stk (some (.opts os)) a1 a2 a3
    (.stmt (.opts os)) a5 .nil .nil os 0 [] d .nil .nil .nil .nil .nil .nil .nil
  simp only [execS, evalE, List.getElem?_cons_succ, List.getElem?_cons_zero, field, fieldPure, rangeItems, ite_true,
    String.reduceEq, ite_false, hl, List.nil_append]
  cases hr : renderOptions henv mkp d.store d.visited os d.w d.ms with
  | mk o wm =>
    obtain ⟨w, ms⟩ := wm
    cases o with
    | err k => simp [exec, hr, stepRes, applyCtlR, isOpts]
    | panic q => simp [exec, hr, stepRes, applyCtlR, isOpts]
    | ok r => simp [opt_post, exec, hr, stepRes, applyCtlR, isOpts]


/-! #### one pass of `Next` is one `micro` step -/

/-- the helpers as `Next` sees them (two levels of calls below it) -/
abbrev U2 : User σ π μ := L2 henv mkp prog src

theorem u2_waiting (d : Data σ π) (stack : List SQ) (last : Option Stmt) :
    U2 henv mkp prog "isWaitingForChoice" .dr [] ⟨d, stack, last⟩ =
      .ret [.bool ((GR.abs ⟨d, stack, last⟩).waiting.isSome)] ⟨d, stack, last⟩ :=
  isWaitingForChoice_is_model henv mkp prog (L1 henv mkp prog src) d stack last

theorem u2_nextStatement (d : Data σ π) (q : SQ) (rest : List SQ) (last : Option Stmt) :
    U2 henv mkp prog "nextStatement" (.qref rest.length) [] ⟨d, q :: rest, last⟩ =
      match q.stmts[q.ptr]? with
      | none => .ret [.nil, .bool false] ⟨d, q :: rest, last⟩
      | some s => .ret [.stmt s, .bool true] ⟨d, { q with ptr := q.ptr + 1 } :: rest, last⟩ :=
  nextStatement_is_model henv mkp prog (L1 henv mkp prog src) d q rest last

theorem u2_set (d : Data σ π) (stack : List SQ) (last : Option Stmt) (v : String) (op : AssignOp) (e : Expr) :
    U2 henv mkp prog "executeSetStatement" .dr [.setS v op e] ⟨d, stack, last⟩ =
      helperRes (exec henv mkp prog d (.set v op e)) stack last :=
  executeSetStatement_is_model henv mkp prog (L1 henv mkp prog src) d stack last v op e

theorem u2_jump (d : Data σ π) (stack : List SQ) (last : Option Stmt) (e : Expr) :
    U2 henv mkp prog "executeJumpStatement" .dr [.jumpS e] ⟨d, stack, last⟩ =
      helperRes (keepLog d.jumpLog (exec henv mkp prog d (.jump e))) stack last :=
  executeJumpStatement_is_model henv mkp prog (L1 henv mkp prog src) d stack last e
    (fun d stack last => incrementNodeTracking_is_model henv mkp prog L0 d stack last)

theorem u2_if (d : Data σ π) (stack : List SQ) (last : Option Stmt) (cs : List (Expr × List Stmt)) :
    U2 henv mkp prog "executeIfStatement" .dr [.ifS cs] ⟨d, stack, last⟩ =
      helperRes (exec henv mkp prog d (.ifs cs)) stack last :=
  executeIfStatement_is_model henv mkp prog (L1 henv mkp prog src) d stack last cs

theorem u2_cmd (d : Data σ π) (stack : List SQ) (last : Option Stmt) (es : List Expr) :
    U2 henv mkp prog "executeCommandStatement" .dr [.cmdS es] ⟨d, stack, last⟩ =
      cmdRes (exec henv mkp prog d (.cmd es)) stack last :=
  executeCommandStatement_is_model henv mkp prog (L1 henv mkp prog src) d stack last es

theorem u2_call (d : Data σ π) (stack : List SQ) (last : Option Stmt) (f : String) (es : List Expr) :
    U2 henv mkp prog "executeCallStatement" .dr [.callS f es] ⟨d, stack, last⟩ =
      helperRes (exec henv mkp prog d (.call f es)) stack last :=
  executeCallStatement_is_model henv mkp prog (L1 henv mkp prog src) d stack last f es

/-- a declare statement reaching `Next` would be run as the set statement it abbreviates -/
theorem u2_declare (d : Data σ π) (stack : List SQ) (last : Option Stmt) (v : String) (e : Expr) :
    U2 henv mkp prog "executeDeclareStatement" .dr [.declS v e] ⟨d, stack, last⟩ =
      helperRes (exec henv mkp prog d (.set v .set e)) stack last :=
  executeDeclareStatement_is_model henv mkp prog (L1 henv mkp prog src) d stack last v e
    (fun d stack last v op e => executeSetStatement_is_model henv mkp prog L0 d stack last v op e)

/-- `Next(c)`, one pass: the interpreted body of `Next` with the helpers interpreted below it -/
def nextPass (c : Nat) (g : GR σ π) : SRes σ π μ := L3 henv mkp prog src "Next" .dr [.int c] g

/-- what falls off the end of a function body returns nothing -/
def finish (r : SRes σ π μ) : SRes σ π μ := match r with | .norm _ g => .ret [] g | r => r

theorem nextPass_eq (c : Nat) (g : GR σ π) :
    nextPass henv mkp prog c g =
      finish (execSs henv mkp prog (U2 henv mkp prog) .dr (envN c .nil .nil .nil .nil .nil) fn_Next.body g) := by
  have h1 : fn_Next.nparams = 1 := rfl
  have h2 : fn_Next.nlocals = 23 := rfl
  simp only [nextPass, L3, callDef, find_next, h1, h2]
  simp [envN, List.replicate, finish]
  cases execSs henv mkp prog (L2 henv mkp prog src) GV.dr _ fn_Next.body g <;> rfl

def noLog (r : R σ π) : R σ π := { r with d := { r.d with jumpLog := [] } }

/-- a pass of the code agrees with a step of the model: the same output (errors as errors), the same state up to the
ghost log; where the model continues without output the code calls itself again with the same argument. After a panic
the data and the stack agree (the model clears its pending choice by convention, the code has no state to speak of) -/
def Agrees (c : Nat) (r : SRes σ π μ) (m : R σ π × Option (Outcome (Elem μ))) : Prop :=
  match m.2 with
  | none => ∃ g', r = .tail [.int c] g' ∧ noLog g'.abs = noLog m.1
  | some (.ok .ended) => ∃ g', r = .ret [.nil, .nil] g' ∧ noLog g'.abs = noLog m.1
  | some (.ok .waiting) => ∃ g', r = .ret [.nil, .errWaiting] g' ∧ noLog g'.abs = noLog m.1
  | some (.ok e) => ∃ g', r = .ret [.elem e, .nil] g' ∧ noLog g'.abs = noLog m.1
  | some (.err _) => ∃ g', r = .ret [.nil, .err] g' ∧ noLog g'.abs = noLog m.1
  | some (.panic q) => ∃ g', r = .panic q g' ∧ (noLog g'.abs).d = (noLog m.1).d ∧ g'.stack = m.1.stack

/-- the part of a pass after the choice block: no command pending, no choice pending -/
theorem next_fetch_is_micro (c : Nat) (d : Data σ π) (stack : List SQ) (last : Option Stmt) (b1 b2 : GV μ)
    (hp : d.pending = none) (hw : last.bind isOpts = none) :
    Agrees c (finish (execSs henv mkp prog (U2 henv mkp prog) .dr (envN c b1 b2 .nil .nil .nil)
        (nextFetch ++ nextSwitch) ⟨d, stack, last⟩))
      (R.micro henv mkp prog ⟨d, stack, none⟩ c) := by
  rw [execSs_append, next_fetch henv mkp prog (U2 henv mkp prog) c d stack last b1 b2 (u2_nextStatement henv mkp prog)]
  have hpoll : poll (μ := μ) d = (d, none) := by simp [poll, hp]
  have hw2 : ∀ a, last = some a → isOpts a = none := by simpa using hw
  cases stack with
  | nil => simpa [finish, R.micro, hpoll, Agrees, GR.abs, noLog] using hw2
  | cons q rest =>
    cases hq : q.stmts[q.ptr]? with
    | none => simpa [finish, R.micro, hpoll, hq, Agrees, GR.abs, noLog] using hw2
    | some st =>
      simp only [hq]
      cases st with
      | line l =>
        rw [switch_line]
        cases hr : renderLine henv mkp d.store d.visited l d.w d.ms with
        | mk o wm =>
          obtain ⟨w, ms⟩ := wm
          cases o <;> simp [finish, R.micro, hpoll, hq, exec, hr, stepRes, Agrees, GR.abs, noLog, isOpts, applyCtlR]
      | opts os =>
        rw [switch_opts]
        cases hr : renderOptions henv mkp d.store d.visited os d.w d.ms with
        | mk o wm =>
          obtain ⟨w, ms⟩ := wm
          cases o <;> simp [finish, R.micro, hpoll, hq, exec, hr, stepRes, Agrees, GR.abs, noLog, isOpts, applyCtlR]
      | set v o e =>
        rw [switch_rest henv mkp prog (U2 henv mkp prog) c d _ _ _ _ _ _ (by simp) (by simp) hp (u2_set henv mkp prog)
          (u2_jump henv mkp prog) (u2_if henv mkp prog) (u2_cmd henv mkp prog) (u2_call henv mkp prog)]
        simp only [R.micro, hpoll, hq]
        generalize exec henv mkp prog d (.set v o e) = x
        obtain ⟨dd, ctl, out⟩ := x
        cases out with
        | none => simp [finish, stepRes, keepLog, Agrees, GR.abs, noLog, isOpts]
        | some o =>
          cases o with
          | ok el => cases el <;> simp [finish, stepRes, keepLog, Agrees, GR.abs, noLog, isOpts]
          | err k => simp [finish, stepRes, keepLog, Agrees, GR.abs, noLog, isOpts]
          | panic p => simp [finish, stepRes, keepLog, Agrees, GR.abs, noLog, isOpts]
      | jump e =>
        rw [switch_rest henv mkp prog (U2 henv mkp prog) c d _ _ _ _ _ _ (by simp) (by simp) hp (u2_set henv mkp prog)
          (u2_jump henv mkp prog) (u2_if henv mkp prog) (u2_cmd henv mkp prog) (u2_call henv mkp prog)]
        simp only [R.micro, hpoll, hq]
        generalize exec henv mkp prog d (.jump e) = x
        obtain ⟨dd, ctl, out⟩ := x
        cases out with
        | none => simp [finish, stepRes, keepLog, Agrees, GR.abs, noLog, isOpts]
        | some o =>
          cases o with
          | ok el => cases el <;> simp [finish, stepRes, keepLog, Agrees, GR.abs, noLog, isOpts]
          | err k => simp [finish, stepRes, keepLog, Agrees, GR.abs, noLog, isOpts]
          | panic p => simp [finish, stepRes, keepLog, Agrees, GR.abs, noLog, isOpts]
      | ifs cs =>
        rw [switch_rest henv mkp prog (U2 henv mkp prog) c d _ _ _ _ _ _ (by simp) (by simp) hp (u2_set henv mkp prog)
          (u2_jump henv mkp prog) (u2_if henv mkp prog) (u2_cmd henv mkp prog) (u2_call henv mkp prog)]
        simp only [R.micro, hpoll, hq]
        generalize exec henv mkp prog d (.ifs cs) = x
        obtain ⟨dd, ctl, out⟩ := x
        cases out with
        | none => simp [finish, stepRes, keepLog, Agrees, GR.abs, noLog, isOpts]
        | some o =>
          cases o with
          | ok el => cases el <;> simp [finish, stepRes, keepLog, Agrees, GR.abs, noLog, isOpts]
          | err k => simp [finish, stepRes, keepLog, Agrees, GR.abs, noLog, isOpts]
          | panic p => simp [finish, stepRes, keepLog, Agrees, GR.abs, noLog, isOpts]
      | cmd es =>
        rw [switch_rest henv mkp prog (U2 henv mkp prog) c d _ _ _ _ _ _ (by simp) (by simp) hp (u2_set henv mkp prog)
          (u2_jump henv mkp prog) (u2_if henv mkp prog) (u2_cmd henv mkp prog) (u2_call henv mkp prog)]
        simp only [R.micro, hpoll, hq]
        generalize exec henv mkp prog d (.cmd es) = x
        obtain ⟨dd, ctl, out⟩ := x
        cases out with
        | none => simp [finish, stepRes, keepLog, Agrees, GR.abs, noLog, isOpts]
        | some o =>
          cases o with
          | ok el => cases el <;> simp [finish, stepRes, keepLog, Agrees, GR.abs, noLog, isOpts]
          | err k => simp [finish, stepRes, keepLog, Agrees, GR.abs, noLog, isOpts]
          | panic p => simp [finish, stepRes, keepLog, Agrees, GR.abs, noLog, isOpts]
      | call f es =>
        rw [switch_rest henv mkp prog (U2 henv mkp prog) c d _ _ _ _ _ _ (by simp) (by simp) hp (u2_set henv mkp prog)
          (u2_jump henv mkp prog) (u2_if henv mkp prog) (u2_cmd henv mkp prog) (u2_call henv mkp prog)]
        simp only [R.micro, hpoll, hq]
        generalize exec henv mkp prog d (.call f es) = x
        obtain ⟨dd, ctl, out⟩ := x
        cases out with
        | none => simp [finish, stepRes, keepLog, Agrees, GR.abs, noLog, isOpts]
        | some o =>
          cases o with
          | ok el => cases el <;> simp [finish, stepRes, keepLog, Agrees, GR.abs, noLog, isOpts]
          | err k => simp [finish, stepRes, keepLog, Agrees, GR.abs, noLog, isOpts]
          | panic p => simp [finish, stepRes, keepLog, Agrees, GR.abs, noLog, isOpts]
      | empty =>
        rw [switch_rest henv mkp prog (U2 henv mkp prog) c d _ _ _ _ _ _ (by simp) (by simp) hp (u2_set henv mkp prog)
          (u2_jump henv mkp prog) (u2_if henv mkp prog) (u2_cmd henv mkp prog) (u2_call henv mkp prog)]
        simp only [R.micro, hpoll, hq]
        generalize exec henv mkp prog d (.empty) = x
        obtain ⟨dd, ctl, out⟩ := x
        cases out with
        | none => simp [finish, stepRes, keepLog, Agrees, GR.abs, noLog, isOpts]
        | some o =>
          cases o with
          | ok el => cases el <;> simp [finish, stepRes, keepLog, Agrees, GR.abs, noLog, isOpts]
          | err k => simp [finish, stepRes, keepLog, Agrees, GR.abs, noLog, isOpts]
          | panic p => simp [finish, stepRes, keepLog, Agrees, GR.abs, noLog, isOpts]


theorem micro_polled (d d' : Data σ π) (stack : List SQ) (w : Option (List (List Stmt))) (c : Nat)
    (h1 : poll (μ := μ) d = (d', none)) (h2 : poll (μ := μ) d' = (d', none)) :
    R.micro henv mkp prog ⟨d, stack, w⟩ c = R.micro henv mkp prog ⟨d', stack, w⟩ c := by
  simp [R.micro, h1, h2]

/-- after the `select`, no choice pending -/
theorem next_tail_is_micro (c : Nat) (d : Data σ π) (stack : List SQ) (last : Option Stmt) (b1 : GV μ)
    (hp : d.pending = none) (hw : last.bind isOpts = none) :
    Agrees c (finish (execSs henv mkp prog (U2 henv mkp prog) .dr (envN c b1 .nil .nil .nil .nil)
        (nextChoice ++ (nextFetch ++ nextSwitch)) ⟨d, stack, last⟩))
      (R.micro henv mkp prog ⟨d, stack, none⟩ c) := by
  obtain ⟨b2, hc⟩ := next_choice henv mkp prog (U2 henv mkp prog) c d stack last b1 (u2_waiting henv mkp prog)
  rw [execSs_append, hc, hw]
  exact next_fetch_is_micro henv mkp prog c d stack last b1 b2 hp hw

/-- after the `select`, a choice pending: the choice block is one `micro` step (the chosen body pushed unless empty,
the choice forgotten; an index out of range is the panic, nothing changed), the rest of the pass a second one -/
theorem next_tail_with_choice (c : Nat) (d : Data σ π) (stack : List SQ) (os : List (LineSpec × List Stmt)) (b1 : GV μ)
    (hp : d.pending = none) :
    Agrees c (finish (execSs henv mkp prog (U2 henv mkp prog) .dr (envN c b1 .nil .nil .nil .nil)
        (nextChoice ++ (nextFetch ++ nextSwitch)) ⟨d, stack, some (.opts os)⟩))
      (match R.micro henv mkp prog ⟨d, stack, isOpts (.opts os)⟩ c with
       | (r', none) => R.micro henv mkp prog r' c
       | x => x) := by
  obtain ⟨b2, hc⟩ := next_choice henv mkp prog (U2 henv mkp prog) c d stack (some (.opts os)) b1 (u2_waiting henv mkp prog)
  have hpoll : poll (μ := μ) d = (d, none) := by simp [poll, hp]
  rw [execSs_append, hc]
  cases ho : os[c]? with
  | none => simp [isOpts, ho, finish, R.micro, hpoll, Agrees, GR.abs, noLog]
  | some lb =>
    obtain ⟨l, b⟩ := lb
    by_cases hb : b.length = 0
    · have hm : (match R.micro henv mkp prog ⟨d, stack, isOpts (.opts os)⟩ c with
          | (r', none) => R.micro henv mkp prog r' c
          | x => x) = R.micro henv mkp prog ⟨d, stack, none⟩ c := by
        simp [R.micro, hpoll, isOpts, ho, hb]
      rw [hm]
      simp only [Option.bind, isOpts, List.getElem?_map, ho, Option.map, hb, ne_eq, not_true_eq_false, ite_false]
      exact next_fetch_is_micro henv mkp prog c d stack none b1 b2 hp rfl
    · have hm : (match R.micro henv mkp prog ⟨d, stack, isOpts (.opts os)⟩ c with
          | (r', none) => R.micro henv mkp prog r' c
          | x => x) = R.micro henv mkp prog ⟨d, ⟨b, 0⟩ :: stack, none⟩ c := by
        simp [R.micro, hpoll, isOpts, ho, hb]
      rw [hm]
      simp only [Option.bind, isOpts, List.getElem?_map, ho, Option.map, hb, ne_eq, not_false_eq_true, ite_true]
      exact next_fetch_is_micro henv mkp prog c d (⟨b, 0⟩ :: stack) none b1 b2 hp rfl

/-- the `select` at the top of a pass and what follows it -/
theorem next_pass_gen (c : Nat) (d : Data σ π) (stack : List SQ) (last : Option Stmt)
    (m : R σ π → R σ π × Option (Outcome (Elem μ)))
    (hm1 : ∀ d' o, poll (μ := μ) d = (d', some o) → m ⟨d, stack, last.bind isOpts⟩ = (⟨d', stack, last.bind isOpts⟩, some o))
    (hm2 : ∀ d', poll (μ := μ) d = (d', none) → m ⟨d, stack, last.bind isOpts⟩ = m ⟨d', stack, last.bind isOpts⟩)
    (ht : ∀ d' b1, d'.pending = none →
      Agrees c (finish (execSs henv mkp prog (U2 henv mkp prog) .dr (envN c b1 .nil .nil .nil .nil)
        (nextChoice ++ (nextFetch ++ nextSwitch)) ⟨d', stack, last⟩)) (m ⟨d', stack, last.bind isOpts⟩)) :
    Agrees c (nextPass henv mkp prog c ⟨d, stack, last⟩) (m (GR.abs ⟨d, stack, last⟩)) := by
  obtain ⟨b1, hpl⟩ := next_poll henv mkp prog (U2 henv mkp prog) c d stack last
  rw [nextPass_eq, next_shape, execSs_append, hpl]
  simp only [GR.abs]
  cases hp : d.pending with
  | none =>
    have hpoll : poll (μ := μ) d = (d, none) := by simp [poll, hp]
    simp only [hpoll]
    exact ht d b1 hp
  | some o =>
    cases o with
    | none =>
      have hpoll : poll (μ := μ) d = (d, some (.ok .waiting)) := by simp [poll, hp]
      rw [hm1 d _ hpoll]
      simp [hpoll, finish, Agrees, GR.abs, noLog]
    | some f =>
      cases f with
      | true =>
        have hpoll : poll (μ := μ) d = ({ d with pending := none }, some (.err .cmdFailed)) := by simp [poll, hp]
        rw [hm1 _ _ hpoll]
        simp [hpoll, finish, Agrees, GR.abs, noLog]
      | false =>
        have hpoll : poll (μ := μ) d = ({ d with pending := none }, none) := by simp [poll, hp]
        rw [hm2 _ hpoll]
        simp only [hpoll]
        exact ht { d with pending := none } b1 rfl

/-- **one pass of `Next` is one `micro` step** (no choice pending): for every state, program, host, markup pass and
argument, the interpreted body of `Next` — with every helper interpreted from the source too — returns what `R.micro`
returns and leaves the state `R.micro` leaves; where `micro` has no output the code tail-calls `Next` with the same
argument. Panics: aligned — the code panics exactly where the model says `.panic`, with the same site, data and stack. -/
theorem next_pass_is_micro (c : Nat) (g : GR σ π) (hw : g.abs.waiting = none) :
    Agrees c (nextPass henv mkp prog c g) (R.micro henv mkp prog g.abs c) := by
  obtain ⟨d, stack, last⟩ := g
  have hw' : last.bind isOpts = none := hw
  refine next_pass_gen henv mkp prog c d stack last (fun r => R.micro henv mkp prog r c) ?_ ?_ ?_
  · intro d' o h; simp [R.micro, h]
  · intro d' h
    have h2 : poll (μ := μ) d' = (d', none) := by
      unfold poll at h ⊢
      cases hp : d.pending with
      | none => simp [hp] at h; subst h; simp [hp]
      | some o =>
        cases o with
        | none => simp [hp] at h
        | some f => cases f <;> simp [hp] at h; subst h; simp
    exact micro_polled henv mkp prog d d' stack _ c h h2
  · intro d' b1 hp
    rw [hw']
    exact next_tail_is_micro henv mkp prog c d' stack last b1 hp hw'

/-- **a pass of `Next` that starts with a pending choice is two `micro` steps**: the choice block, then the rest -/
theorem next_pass_with_choice (c : Nat) (g : GR σ π) (bodies : List (List Stmt)) (hw : g.abs.waiting = some bodies) :
    Agrees c (nextPass henv mkp prog c g)
      (match R.micro henv mkp prog g.abs c with
       | (r', none) => R.micro henv mkp prog r' c
       | x => x) := by
  obtain ⟨d, stack, last⟩ := g
  cases last with
  | none => simp [GR.abs] at hw
  | some st =>
    cases st with
    | opts os =>
      refine next_pass_gen henv mkp prog c d stack (some (.opts os))
        (fun r => match R.micro henv mkp prog r c with | (r', none) => R.micro henv mkp prog r' c | x => x) ?_ ?_ ?_
      · intro d' o h; simp [R.micro, h]
      · intro d' h
        have h2 : poll (μ := μ) d' = (d', none) := by
          unfold poll at h ⊢
          cases hp : d.pending with
          | none => simp [hp] at h; subst h; simp [hp]
          | some o =>
            cases o with
            | none => simp [hp] at h
            | some f => cases f <;> simp [hp] at h; subst h; simp
        simp only [micro_polled henv mkp prog d d' stack _ c h h2]
      · intro d' b1 hp
        exact next_tail_with_choice henv mkp prog c d' stack os b1 hp
    | line l => simp [GR.abs, isOpts] at hw
    | set v o e => simp [GR.abs, isOpts] at hw
    | jump e => simp [GR.abs, isOpts] at hw
    | ifs cs => simp [GR.abs, isOpts] at hw
    | cmd es => simp [GR.abs, isOpts] at hw
    | call f es => simp [GR.abs, isOpts] at hw
    | empty => simp [GR.abs, isOpts] at hw



/-! ### `Next` as a whole is `R.next` -/

def eraseLog (d : Data σ π) : Data σ π := { d with jumpLog := [] }

/-- the ghost log is never read: a statement does the same whatever the log holds -/
theorem exec_eraseLog (d : Data σ π) (st : Stmt) :
    eraseLog (exec henv mkp prog (eraseLog d) st).1 = eraseLog (exec henv mkp prog d st).1 ∧
    (exec henv mkp prog (eraseLog d) st).2 = (exec henv mkp prog d st).2 := by
  cases st with
  | empty => simp [exec, eraseLog]
  | line l =>
    simp only [exec, eraseLog]
    cases renderLine henv mkp d.store d.visited l d.w d.ms with
    | mk o wm => obtain ⟨w, ms⟩ := wm; cases o <;> simp
  | opts os =>
    simp only [exec, eraseLog]
    cases renderOptions henv mkp d.store d.visited os d.w d.ms with
    | mk o wm => obtain ⟨w, ms⟩ := wm; cases o <;> simp
  | set v op e =>
    simp only [exec, eraseLog]
    cases eval henv d.store d.visited e d.w with
    | mk o w =>
      cases o with
      | err k => simp
      | panic q => simp
      | ok x => cases ha : applyAssign op (d.store.get v) x <;> simp [ha]
  | jump e =>
    simp only [exec, eraseLog]
    cases eval henv d.store d.visited e d.w with
    | mk o w =>
      cases o with
      | err k => simp
      | panic q => simp
      | ok x =>
        cases x with
        | num a => simp
        | bool a => simp
        | str t =>
          cases hf : prog.find t with
          | none => simp [hf]
          | some n => by_cases hfc : (Option.map Node.tracked (prog.find d.cur)).getD false = true <;> simp [hf, hfc]
  | ifs cs =>
    simp only [exec, eraseLog]
    cases firstTrue henv d.store d.visited cs d.w with
    | mk o w =>
      cases o with
      | err k => simp
      | panic q => simp
      | ok x => cases x <;> simp
  | call f es =>
    simp only [exec, eraseLog]
    cases evalArgs henv d.store d.visited es d.w with
    | mk o w =>
      cases o with
      | err k => simp
      | panic q => simp
      | ok vs =>
        cases hc : callFn henv d.visited f vs w with
        | mk o2 w2 => cases o2 <;> simp [hc]
  | cmd es =>
    cases es with
    | nil => simp [exec, eraseLog]
    | cons e0 es0 =>
      simp only [exec, eraseLog]
      cases evalArgs henv d.store d.visited (e0 :: es0) d.w with
      | mk o w =>
        cases o with
        | err k => simp
        | panic q => simp
        | ok vs =>
          cases vs with
          | nil => simp
          | cons v args =>
            cases v with
            | num a => simp
            | bool a => simp
            | str name =>
              by_cases hs : name = "stop"
              · simp [hs]
              · cases hc : henv.cmd name args w.host with
                | mk o2 h => cases o2 <;> simp [hs, hc]

theorem noLog_eq (d : Data σ π) (stack : List SQ) (w : Option (List (List Stmt))) :
    noLog (⟨d, stack, w⟩ : R σ π) = ⟨eraseLog d, stack, w⟩ := rfl

/-- … so a `micro` step does the same whatever the log holds (no command pending) -/
theorem micro_noLog_polled (d : Data σ π) (stack : List SQ) (w : Option (List (List Stmt))) (c : Nat) (hp : d.pending = none) :
    noLog (R.micro henv mkp prog ⟨eraseLog d, stack, w⟩ c).1 = noLog (R.micro henv mkp prog ⟨d, stack, w⟩ c).1 ∧
    (R.micro henv mkp prog ⟨eraseLog d, stack, w⟩ c).2 = (R.micro henv mkp prog ⟨d, stack, w⟩ c).2 := by
  have h1 : poll (μ := μ) d = (d, none) := by simp [poll, hp]
  have h2 : poll (μ := μ) (eraseLog d) = (eraseLog d, none) := by simp [poll, hp, eraseLog]
  simp only [R.micro, h1, h2]
  cases w with
  | some bodies =>
    cases hb : bodies[c]? with
    | none => simp [hb, noLog_eq, eraseLog]
    | some b => by_cases hl : b.length = 0 <;> simp [hb, hl, noLog_eq, eraseLog]
  | none =>
    cases stack with
    | nil => simp [noLog_eq, eraseLog]
    | cons q rest =>
      cases hq : q.stmts[q.ptr]? with
      | none => simp [hq, noLog_eq, eraseLog]
      | some st =>
        have he := exec_eraseLog henv mkp prog d st
        simp only [hq]
        generalize exec henv mkp prog (eraseLog d) st = y at he ⊢
        generalize exec henv mkp prog d st = x at he ⊢
        obtain ⟨d1, ctl1, out1⟩ := x
        obtain ⟨d2, ctl2, out2⟩ := y
        simp only [Prod.mk.injEq] at he
        obtain ⟨hd, hc, ho⟩ := he
        subst hc; subst ho
        simp only [noLog_eq, and_true]
        simp only [eraseLog] at hd
        simp [eraseLog, hd]

theorem micro_noLog (r : R σ π) (c : Nat) :
    noLog (R.micro henv mkp prog (noLog r) c).1 = noLog (R.micro henv mkp prog r c).1 ∧
    (R.micro henv mkp prog (noLog r) c).2 = (R.micro henv mkp prog r c).2 := by
  obtain ⟨d, stack, w⟩ := r
  have e : noLog (⟨d, stack, w⟩ : R σ π) = ⟨eraseLog d, stack, w⟩ := rfl
  rw [e]
  cases hp : d.pending with
  | none => exact micro_noLog_polled henv mkp prog d stack w c hp
  | some o =>
    cases o with
    | none => simp [R.micro, poll, hp, eraseLog, noLog_eq]
    | some f =>
      cases f with
      | true => simp [R.micro, poll, hp, eraseLog, noLog_eq]
      | false =>
        have h1 : poll (μ := μ) d = ({ d with pending := none }, none) := by simp [poll, hp]
        have h2 : poll (μ := μ) (eraseLog d) = (eraseLog { d with pending := none }, none) := by simp [poll, hp, eraseLog]
        have h3 : poll (μ := μ) ({ d with pending := none } : Data σ π) = ({ d with pending := none }, none) := by simp [poll]
        have h4 : poll (μ := μ) (eraseLog { d with pending := none }) = (eraseLog { d with pending := none }, none) := by
          simp [poll, eraseLog]
        rw [micro_polled henv mkp prog _ _ stack w c h1 h3, micro_polled henv mkp prog _ _ stack w c h2 h4]
        exact micro_noLog_polled henv mkp prog _ stack w c rfl

/-- states that differ in the ghost log only take the same `micro` step -/
theorem micro_congr_noLog (r1 r2 : R σ π) (c : Nat) (h : noLog r1 = noLog r2) :
    noLog (R.micro henv mkp prog r1 c).1 = noLog (R.micro henv mkp prog r2 c).1 ∧
    (R.micro henv mkp prog r1 c).2 = (R.micro henv mkp prog r2 c).2 := by
  have a := micro_noLog henv mkp prog r1 c
  have b := micro_noLog henv mkp prog r2 c
  rw [h] at a
  exact ⟨a.1.symm.trans b.1, a.2.symm.trans b.2⟩

/-- a step without output leaves no choice pending -/
theorem micro_none_waiting (r : R σ π) (c : Nat) (h : (R.micro henv mkp prog r c).2 = none) :
    (R.micro henv mkp prog r c).1.waiting = none := by
  obtain ⟨d, stack, w⟩ := r
  unfold R.micro at h ⊢
  cases hp : poll (μ := μ) d with
  | mk d' o =>
    cases o with
    | some out => simp [hp] at h
    | none =>
      simp only [hp] at h ⊢
      cases w with
      | some bodies =>
        cases hb : bodies[c]? with
        | none => simp [hb] at h
        | some b => by_cases hl : b.length = 0 <;> simp [hb, hl]
      | none =>
        cases stack with
        | nil => simp at h
        | cons q rest =>
          cases hq : q.stmts[q.ptr]? with
          | none => simp [hq]
          | some st =>
            simp only [hq] at h ⊢
            generalize exec henv mkp prog d' st = x at h ⊢
            obtain ⟨d1, ctl1, out1⟩ := x
            simp only at h
            subst h
            simp

/-- `Next(c)`: passes of the interpreted body following its tail calls, at most `f` of them (out of fuel: still calling) -/
def nextRun (c : Nat) : Nat → GR σ π → SRes σ π μ
  | 0, g => .tail [.int c] g
  | f + 1, g =>
    match nextPass henv mkp prog c g with
    | .tail _ g' => nextRun c f g'
    | r => r

/-- agreement of a whole call with `R.next` -/
def AgreesN (c : Nat) (r : SRes σ π μ) (m : R σ π × NextRes μ) : Prop :=
  match m.2 with
  | .fuel => ∃ g', r = .tail [.int c] g' ∧ noLog g'.abs = noLog m.1
  | .out o => Agrees c r (m.1, some o)

theorem noLog_waiting (r1 r2 : R σ π) (h : noLog r1 = noLog r2) : r1.waiting = r2.waiting := by
  have := congrArg R.waiting h
  simpa [noLog] using this

theorem noLog_stack (r1 r2 : R σ π) (h : noLog r1 = noLog r2) : r1.stack = r2.stack := by
  have := congrArg R.stack h
  simpa [noLog] using this

/-- **`Next` is `R.next`**: the interpreted `Next`, iterated along its own tail calls, returns what the model's `Next`
returns and leaves the state it leaves (up to the ghost log), for every fuel — from any state without a pending choice -/
theorem next_is_model (c : Nat) : ∀ (f : Nat) (g : GR σ π) (r : R σ π), noLog g.abs = noLog r → r.waiting = none →
    AgreesN c (nextRun henv mkp prog c f g) (R.next henv mkp prog f r c) := by
  intro f
  induction f with
  | zero => intro g r h _; exact ⟨g, rfl, h⟩
  | succ f ih =>
    intro g r h hw
    have hwg : g.abs.waiting = none := (noLog_waiting _ _ h).trans hw
    have ha := next_pass_is_micro henv mkp prog c g hwg
    have hc := micro_congr_noLog henv mkp prog g.abs r c h
    have hnw := micro_none_waiting henv mkp prog r c
    unfold R.next
    cases hm : R.micro henv mkp prog r c with
    | mk r' out =>
      cases hmg : R.micro henv mkp prog g.abs c with
      | mk rg outg =>
        rw [hm, hmg] at hc
        rw [hmg] at ha
        rw [hm] at hnw
        obtain ⟨hs, ho⟩ := hc
        simp only at hs ho
        subst ho
        cases outg with
        | none =>
          obtain ⟨g', hp, hg'⟩ := ha
          simp only [nextRun, hp]
          exact ih g' r' (hg'.trans hs) (hnw rfl)
        | some o =>
          simp only [AgreesN]
          cases o with
          | err k =>
            obtain ⟨g', hp, hg'⟩ := ha
            exact ⟨g', by simp [nextRun, hp], hg'.trans hs⟩
          | panic q =>
            obtain ⟨g', hp, hd, hst⟩ := ha
            refine ⟨g', by simp [nextRun, hp], ?_, ?_⟩
            · simp only at hd ⊢; rw [hd, hs]
            · simp only at hst ⊢; rw [hst]; exact noLog_stack _ _ hs
          | ok e =>
            cases e with
            | ended => obtain ⟨g', hp, hg'⟩ := ha; exact ⟨g', by simp [nextRun, hp], hg'.trans hs⟩
            | waiting => obtain ⟨g', hp, hg'⟩ := ha; exact ⟨g', by simp [nextRun, hp], hg'.trans hs⟩
            | line n t tags => obtain ⟨g', hp, hg'⟩ := ha; exact ⟨g', by simp [nextRun, hp], hg'.trans hs⟩
            | options n os => obtain ⟨g', hp, hg'⟩ := ha; exact ⟨g', by simp [nextRun, hp], hg'.trans hs⟩

/-- … and from a state with a pending choice: the first pass of the code is the model's first two steps -/
theorem next_is_model_with_choice (c : Nat) (f : Nat) (g : GR σ π) (bodies : List (List Stmt))
    (hw : g.abs.waiting = some bodies) :
    AgreesN c (nextRun henv mkp prog c (f + 1) g) (R.next henv mkp prog (f + 2) g.abs c) := by
  have ha := next_pass_with_choice henv mkp prog c g bodies hw
  have hnw := micro_none_waiting henv mkp prog g.abs c
  rw [R.next]
  cases hm : R.micro henv mkp prog g.abs c with
  | mk r1 out1 =>
    rw [hm] at ha hnw
    cases out1 with
    | some o =>
      simp only [AgreesN] at ha ⊢
      cases o with
      | err k => obtain ⟨g', hp, hg'⟩ := ha; exact ⟨g', by simp [nextRun, hp], hg'⟩
      | panic q => obtain ⟨g', hp, hd, hst⟩ := ha; exact ⟨g', by simp [nextRun, hp], hd, hst⟩
      | ok e =>
        cases e with
        | ended => obtain ⟨g', hp, hg'⟩ := ha; exact ⟨g', by simp [nextRun, hp], hg'⟩
        | waiting => obtain ⟨g', hp, hg'⟩ := ha; exact ⟨g', by simp [nextRun, hp], hg'⟩
        | line n t tags => obtain ⟨g', hp, hg'⟩ := ha; exact ⟨g', by simp [nextRun, hp], hg'⟩
        | options n os => obtain ⟨g', hp, hg'⟩ := ha; exact ⟨g', by simp [nextRun, hp], hg'⟩
    | none =>
      simp only at ha ⊢
      have hw1 : r1.waiting = none := hnw rfl
      rw [R.next]
      cases hm2 : R.micro henv mkp prog r1 c with
      | mk r2 out2 =>
        rw [hm2] at ha
        have hnw2 := micro_none_waiting henv mkp prog r1 c
        rw [hm2] at hnw2
        cases out2 with
        | none =>
          obtain ⟨g', hp, hg'⟩ := ha
          simp only [nextRun, hp]
          exact next_is_model henv mkp prog c f g' r2 hg' (hnw2 rfl)
        | some o =>
          simp only [AgreesN] at ha ⊢
          cases o with
          | err k => obtain ⟨g', hp, hg'⟩ := ha; exact ⟨g', by simp [nextRun, hp], hg'⟩
          | panic q => obtain ⟨g', hp, hd, hst⟩ := ha; exact ⟨g', by simp [nextRun, hp], hd, hst⟩
          | ok e =>
            cases e with
            | ended => obtain ⟨g', hp, hg'⟩ := ha; exact ⟨g', by simp [nextRun, hp], hg'⟩
            | waiting => obtain ⟨g', hp, hg'⟩ := ha; exact ⟨g', by simp [nextRun, hp], hg'⟩
            | line n t tags => obtain ⟨g', hp, hg'⟩ := ha; exact ⟨g', by simp [nextRun, hp], hg'⟩
            | options n os => obtain ⟨g', hp, hg'⟩ := ha; exact ⟨g', by simp [nextRun, hp], hg'⟩

/-! ### non-vacuity: the interpreter evaluated on concrete states (kernel reduction, `decide`) -/
namespace Demo

def henv0 : Env Unit :=
  { call := fun _ _ s => (.err .unknownFn, s), knows := fun _ => false,
    cmd := fun n _ s => (if n = "wait" then .pending else .unknown, s) }
def mk0 : Markup Unit String := { parse := fun ms s => (ms, .ok s) }
def bodyA : List Stmt := [.set "x" .set (.lit (.bool true)), .jump (.lit (.str "B"))]
def bodyB : List Stmt := [.line { elems := [.inl "hi"] }, .cmd [.lit (.str "wait")], .set "x" .add (.lit (.bool true))]
def prog0 : Program := [{ title := "A", body := bodyA }, { title := "B", tracking := "never", body := bodyB }]
def g0 : GR Unit Unit := ⟨{ cur := "A", w := ⟨(), ⟨#[], 0, 0⟩⟩, ms := () }, [⟨bodyA, 0⟩], none⟩

/-- kind of result, current node, (length, pointer) of the queues, visit counters, variable names, checkpoint names, pending command -/
structure St where
  cur : String
  stack : List (Nat × Nat)
  visited : List (String × Nat)
  vars : List String
  snap : List String
  pending : Bool
  deriving DecidableEq
abbrev Obs := String × St
def st (g : GR Unit Unit) : St :=
  ⟨g.d.cur, g.stack.map (fun q => (q.stmts.length, q.ptr)), g.d.visited, g.d.store.map (·.1), g.d.snapVars.map (·.1), g.d.pending.isSome⟩
def obs (r : SRes Unit Unit String) : Obs :=
  match r with
  | .stuck => ("stuck", ⟨"", [], [], [], [], false⟩)
  | .panic _ g => ("panic", st g)
  | .norm _ g => ("norm", st g)
  | .tail [.int _] g => ("again", st g)
  | .ret [.elem (.line n t _), .nil] g => ("line " ++ n ++ ": " ++ t, st g)
  | .ret [.nil, .nil] g => ("end", st g)
  | .ret [.nil, .errWaiting] g => ("waiting", st g)
  | .ret [.nil, .err] g => ("error", st g)
  | .ret [.err] g => ("helper error", st g)
  | .ret [.nil] g => ("helper ok", st g)
  | .ret _ g => ("other", st g)
  | .tail _ g => ("other", st g)

def stateOf : SRes Unit Unit String → Option (GR Unit Unit)
  | .stuck => none
  | .panic _ g => some g | .norm _ g => some g | .tail _ g => some g | .ret _ g => some g

/-- the `n`-th pass of `Next(0)` from `g`, each pass starting where the previous one stopped -/
def passes : Nat → GR Unit Unit → SRes Unit Unit String
  | 0, g => .norm [] g
  | n + 1, g => match stateOf (passes n g) with
    | some g => nextPass henv0 mk0 prog0 0 g
    | none => .stuck

-- pass 1 runs the set statement and calls Next again; pass 2 jumps: A's counter is bumped, the checkpoint takes x, the stack is B's queue
example : obs (passes 1 g0) = ("again", ⟨"A", [(2, 1)], [], ["x"], [], false⟩) := by decide +kernel
example : obs (passes 2 g0) = ("again", ⟨"B", [(3, 0)], [("A", 1)], ["x"], ["x"], false⟩) := by decide +kernel
-- pass 3 presents the line of B; pass 4 dispatches the command, which is still running; pass 5 is refused while it runs
example : obs (passes 3 g0) = ("line B: hi", ⟨"B", [(3, 1)], [("A", 1)], ["x"], ["x"], false⟩) := by decide +kernel
example : obs (passes 4 g0) = ("waiting", ⟨"B", [(3, 2)], [("A", 1)], ["x"], ["x"], true⟩) := by decide +kernel
example : obs (passes 5 g0) = ("waiting", ⟨"B", [(3, 2)], [("A", 1)], ["x"], ["x"], true⟩) := by decide +kernel

def gDone : GR Unit Unit := match stateOf (passes 4 g0) with | some g => { g with d := { g.d with pending := some (some false) } } | none => g0
-- the command completes: the next pass runs `x += true`, an error that writes nothing; then the queue is popped and the dialogue ends
example : obs (passes 1 gDone) = ("error", ⟨"B", [(3, 3)], [("A", 1)], ["x"], ["x"], false⟩) := by decide +kernel
example : obs (passes 2 gDone) = ("again", ⟨"B", [], [("A", 1)], ["x"], ["x"], false⟩) := by decide +kernel
example : obs (passes 3 gDone) = ("end", ⟨"B", [], [("A", 1)], ["x"], ["x"], false⟩) := by decide +kernel

-- the whole call: `Next(0)` from the start runs the set statement, jumps, and presents the line of B
example : obs (nextRun henv0 mk0 prog0 0 10 g0) = ("line B: hi", ⟨"B", [(3, 1)], [("A", 1)], ["x"], ["x"], false⟩) := by decide +kernel

-- RestoreAt: unknown node = error and nothing changed; a known node rebuilds everything
def gMid : GR Unit Unit := (stateOf (passes 3 g0)).getD g0
example : obs (L3 henv0 mk0 prog0 src "RestoreAt" .dr [.snap ⟨[("y", .num (F64.ofInt 1))], [("B", 7)], "nowhere"⟩] gMid) =
    ("helper error", ⟨"B", [(3, 1)], [("A", 1)], ["x"], ["x"], false⟩) := by decide +kernel
example : obs (L3 henv0 mk0 prog0 src "RestoreAt" .dr [.snap ⟨[("y", .num (F64.ofInt 1))], [("B", 7)], "A"⟩] gMid) =
    ("helper ok", ⟨"A", [(2, 0)], [("B", 7)], ["y"], ["y"], false⟩) := by decide +kernel

-- what the translator does not understand has no meaning, and neither has a function that is not there
example : obs (execS henv0 mk0 prog0 (L2 henv0 mk0 prog0 src) .dr [] (.unsupported "goto") g0) = ("stuck", ⟨"", [], [], [], [], false⟩) := by decide +kernel
example : obs (L3 henv0 mk0 prog0 src "Previous" .dr [] g0) = ("stuck", ⟨"", [], [], [], [], false⟩) := by decide +kernel

/-- the interpreter is not trivially agreeable: `nextStatement` with `>` for `>=` (the seeded mutant) indexes past the
end of an exhausted queue — a panic where the source returns `(nil, false)` -/
def nextStatementGt : FnDef := { fn_nextStatement with body := match fn_nextStatement.body with
  | .ite i (.bin _ a b) t e :: rest => .ite i (.bin ">" a b) t e :: rest
  | b => b }
def gEnd : GR Unit Unit := ⟨g0.d, [⟨bodyA, 2⟩], none⟩
example : (obs (callDef henv0 mk0 prog0 L0 [nextStatementGt] "nextStatement" (.qref 0) [] gEnd)).1 = "panic" ∧
    obs (callDef henv0 mk0 prog0 L0 src "nextStatement" (.qref 0) [] gEnd) = ("other", ⟨"A", [(2, 2)], [], [], [], false⟩) := by decide +kernel

end Demo

end Ysgo.C01IR

#print axioms Ysgo.C01IR.nextStatement_is_model
#print axioms Ysgo.C01IR.isWaitingForChoice_is_model
#print axioms Ysgo.C01IR.executeSetStatement_is_model
#print axioms Ysgo.C01IR.executeSetStatement_failure_writes_nothing
#print axioms Ysgo.C01IR.executeDeclareStatement_is_model
#print axioms Ysgo.C01IR.incrementNodeTracking_is_model
#print axioms Ysgo.C01IR.executeJumpStatement_is_model
#print axioms Ysgo.C01IR.executeIfStatement_is_model
#print axioms Ysgo.C01IR.executeCommandStatement_is_model
#print axioms Ysgo.C01IR.executeCallStatement_is_model
#print axioms Ysgo.C01IR.snapshot_is_model
#print axioms Ysgo.C01IR.restoreAt_is_model
#print axioms Ysgo.C01IR.next_pass_is_micro
#print axioms Ysgo.C01IR.next_pass_with_choice
#print axioms Ysgo.C01IR.next_is_model
#print axioms Ysgo.C01IR.next_is_model_with_choice
