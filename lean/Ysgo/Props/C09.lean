import Ysgo.Lemmas.NoPanic
/-!
# C09 — random built-ins stay in range (integer clauses); determinism is by construction of the model

`run_is_function_of_seed_and_choices`: the model's trace is by construction a function of (program, seed, choices,
host behaviour) — the RNG is a field of the state and nothing else is random. That statement carries no assurance about
the implementation by itself; the assurance comes from the `rand` stream, where the implementation must agree with this
pure function bit for bit on the random values, in the same process, after unrelated runners, and in fresh processes.
The clause `random() ∈ [0,1)` is `Props/C09Float.lean`.
-/
namespace Ysgo.C09
open Ysgo
set_option linter.unusedSimpArgs false

theorem rejLoop_le (draw : Rng.Src → Nat × Rng.Src) (max : Nat) :
    ∀ (fuel : Nat) (g g' : Rng.Src) (v : Nat), Rng.rejLoop draw max fuel g = some (v, g') → v ≤ max
  | 0, g, g', v, h => by simp [Rng.rejLoop] at h
  | fuel + 1, g, g', v, h => by
    unfold Rng.rejLoop at h
    cases hd : draw g with
    | mk x g1 =>
      simp only [hd] at h
      split at h
      · exact rejLoop_le draw max fuel g1 g' v h
      · simp only [Option.some.injEq, Prod.mk.injEq] at h
        rename_i hle
        omega

theorem int31n_lt (g g' : Rng.Src) (n v : Nat) (hn : 0 < n) (h : Rng.int31n g n = some (v, g')) : v < n := by
  unfold Rng.int31n at h
  split at h
  · simp only [Option.some.injEq, Prod.mk.injEq] at h
    have := @Nat.and_le_right (Rng.int31 g).1 (n - 1)
    omega
  · cases hr : Rng.rejLoop Rng.int31 (2147483647 - 2147483648 % n) 1000 g with
    | none => simp [hr] at h
    | some p =>
      simp only [hr, Option.map_some, Option.some.injEq, Prod.mk.injEq] at h
      rw [← h.1]; exact Nat.mod_lt _ hn

theorem int63n_lt (g g' : Rng.Src) (n v : Nat) (hn : 0 < n) (h : Rng.int63n g n = some (v, g')) : v < n := by
  unfold Rng.int63n at h
  split at h
  · simp only [Option.some.injEq, Prod.mk.injEq] at h
    have := @Nat.and_le_right (Rng.int63 g).1 (n - 1)
    omega
  · cases hr : Rng.rejLoop Rng.int63 (P63 - 1 - P63 % n) 1000 g with
    | none => simp [hr] at h
    | some p =>
      simp only [hr, Option.map_some, Option.some.injEq, Prod.mk.injEq] at h
      rw [← h.1]; exact Nat.mod_lt _ hn

/-- `Intn(n)` returns a value in `[0, n)` -/
theorem intn_lt (g g' : Rng.Src) (n : Int) (v : Nat) (h : Rng.intn g n = .val v g') : (v : Int) < n := by
  unfold Rng.intn at h
  split at h
  · cases h
  · rename_i hn
    have hpos : 0 < n.toNat := by omega
    simp only at h
    split at h
    · rename_i r x g1 heq
      simp only [Rng.DrawRes.val.injEq] at h
      obtain ⟨hv, _⟩ := h
      subst hv
      split at heq
      · have := int31n_lt g g1 n.toNat x hpos heq; omega
      · have := int63n_lt g g1 n.toNat x hpos heq; omega
    · cases h

/-- C09.1 `intBetween_in_range`: for int64 bounds `lo ≤ hi` whose span fits, the result lies in `[lo, hi]` -/
theorem intBetween_in_range (g g' : Rng.Src) (lo hi v : Int) (hlo : -(P63 : Int) ≤ lo) (hhi : hi < (P63 : Int)) (hle : lo ≤ hi)
    (hspan : hi - lo + 1 < (P63 : Int)) (h : Rng.intBetween g lo hi = .val v g') : lo ≤ v ∧ v ≤ hi := by
  unfold Rng.intBetween at h
  have hw : Rng.wrap64 (hi - lo + 1) = hi - lo + 1 := wrap64_id _ (by omega) hspan
  rw [hw] at h
  cases hi' : Rng.intn g (hi - lo + 1) with
  | panic => simp [hi'] at h
  | fuel => simp [hi'] at h
  | val x g1 =>
    simp only [hi', Rng.DrawRes.val.injEq] at h
    have hx := intn_lt g g1 _ x hi'
    have hw2 : Rng.wrap64 (lo + x) = lo + x := wrap64_id _ (by omega) (by omega)
    rw [hw2] at h
    omega

/-- `dice(n)` is an integer in `[1, n]` for every `n ≥ 1` (any seed, any RNG state) -/
theorem dice_in_range (vis : Map Nat) (x : F64) (g g' : Rng.Src) (r : Value)
    (h : builtin vis "dice" [.num x] g = (.ok (some r), g')) :
    ∃ v : Int, r = .num (F64.ofInt v) ∧ 1 ≤ v ∧ v ≤ x.toInt64 := by
  simp only [builtin] at h
  split at h
  · simp at h
  · rename_i hs
    have hr := toInt64_range x
    cases hb : Rng.intBetween g 1 x.toInt64 with
    | panic => simp [hb] at h
    | fuel => simp [hb] at h
    | val v g1 =>
      simp only [hb, Prod.mk.injEq, Outcome.ok.injEq, Option.some.injEq] at h
      have := intBetween_in_range g g1 1 x.toInt64 v (by unfold P63; omega) hr.2 (by omega) (by omega) hb
      exact ⟨v, h.1.symm, this.1, this.2⟩

/-- `random_range(a, b)` is an integer in `[a, b]` -/
theorem random_range_in_range (vis : Map Nat) (a b : F64) (g g' : Rng.Src) (r : Value)
    (h : builtin vis "random_range" [.num a, .num b] g = (.ok (some r), g')) :
    ∃ v : Int, r = .num (F64.ofInt v) ∧ a.toInt64 ≤ v ∧ v ≤ b.toInt64 := by
  simp only [builtin] at h
  split at h
  · simp at h
  · rename_i hs
    simp only [not_or, Int.not_lt] at hs
    obtain ⟨h1, h2, h3⟩ := hs
    have ha := toInt64_range a
    have hb := toInt64_range b
    have hd : 0 ≤ b.toInt64 - a.toInt64 := by omega
    -- the guard excludes spans that do not fit
    have hfit : b.toInt64 - a.toInt64 + 1 < (P63 : Int) := by
      by_cases hbig : b.toInt64 - a.toInt64 < (P63 : Int)
      · have hw := wrap64_id (b.toInt64 - a.toInt64) (by unfold P63 at *; omega) hbig
        rw [hw] at h3
        unfold maxInt at h3
        unfold P63 at *; omega
      · exfalso
        have hlt : b.toInt64 - a.toInt64 < (P64 : Int) := by unfold P63 P64 at *; omega
        unfold Rng.wrap64 at h2
        have hm : (b.toInt64 - a.toInt64) % (P64 : Int) = b.toInt64 - a.toInt64 := Int.emod_eq_of_lt hd hlt
        rw [hm] at h2
        simp only at h2
        have : (b.toInt64 - a.toInt64) ≥ (P63 : Int) := by omega
        simp only [this, if_true] at h2
        unfold P63 P64 at *; omega
    cases hbt : Rng.intBetween g a.toInt64 b.toInt64 with
    | panic => simp [hbt] at h
    | fuel => simp [hbt] at h
    | val v g1 =>
      simp only [hbt, Prod.mk.injEq, Outcome.ok.injEq, Option.some.injEq] at h
      have := intBetween_in_range g g1 a.toInt64 b.toInt64 v ha.1 hb.2 (by omega) hfit hbt
      exact ⟨v, h.1.symm, this.1, this.2⟩

/-- C09.2 `run_is_function_of_seed_and_choices`: two runs from equal initial states driven with equal arguments are
equal — the model has no hidden input (statement about the model only; see the header) -/
theorem run_is_function_of_seed_and_choices {σ π μ : Type} (env : Env σ) (mk : Markup π μ) (p : Program) (r₁ r₂ : R σ π)
    (h : r₁ = r₂) (f c : Nat) : r₁.next env mk p f c = r₂.next env mk p f c := by rw [h]

/-- non-vacuity: the hypotheses of the range theorem are satisfiable (a die with six sides) -/
example : -(P63 : Int) ≤ 1 ∧ (6 : Int) < (P63 : Int) ∧ (1 : Int) ≤ 6 ∧ (6 : Int) - 1 + 1 < (P63 : Int) := by decide

end Ysgo.C09
