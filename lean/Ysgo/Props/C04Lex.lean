import Ysgo.Lemmas.LineLex
/-!
# C04.4 (lexical half of C04): what is written on a line is what the line statement holds

DESIGN §5 C04 theorem 4. The statements are about `LineLex.lexLine` — the executable scanner the `linelex`
correspondence stream runs against the ANTLR lexer + parser + listener of /repo on one-line node bodies.

A *line description* (`LineLex.Desc`) is a sequence of pieces — literal characters each written escaped (`\c`) or
not, `\[` / `\]`, inline expressions `{…}` given by their written tokens — an optional `<<if …>>` condition, hashtags
and an optional trailing comment. `Valid` says where escaping is required and where it is legal:

* an escaped character is one of `\ < > { } # /`;
* an unescaped character is not `\`, `#`, `{` (nor a line end), `<` is not followed by a written `<`, `/` not by `/`;
* the first piece is not `\[`/`\]`; an unescaped first character is no blank or tab and does not begin `->` or `===`;
* the tokens of every expression are well-formed, written in ANY of their spellings, separated so that no token runs
  into the next (`WOk`), and parse to the expression's tree; tags are non-empty HASHTAG_TEXTs.

`linelex_roundtrip`: for every valid description, `lexLine (render d)` is exactly `expected d`: the literal
characters with the escapes resolved (adjacent ones joined into one text element, `\[` `\]` kept with their
backslash for the markup pass), the expressions in place, the condition, the tags without `#`, and nothing of the
comment.
-/
namespace Ysgo
namespace C04Lex
open ExprSyntax LineLex

/-- C04.4 `linelex_roundtrip` -/
theorem linelex_roundtrip (d : Desc) (hv : Valid d) : lexLine (render d) = .line ⟨false, expected d⟩ :=
  lexLine_valid d hv

/-- the same line as the first line of a shortcut option: `->`, any blanks, the line -/
theorem linelex_roundtrip_option (d : Desc) (hv : Valid d) (gap : List Char) (hgap : gap.all isWs = true) :
    lexLine ('-' :: '>' :: (gap ++ render d)) = .line ⟨true, expected d⟩ :=
  lexLine_valid_option d hv gap hgap

/-- what `expected` is on a description made of literal characters only: ONE text element holding exactly the
    characters, whether they were written escaped or not (the per-position, per-character statement) -/
theorem expected_chars (cs : List (Char × Bool)) (hne : cs ≠ []) (cond : Option (List Written × Expr))
    (tags : List Str) (comment : Option Str) :
    expected { items := cs.map (fun p => .ch p.1 p.2), cond := cond, tags := tags, comment := comment } =
      { elems := [.text (cs.map (·.1))], cond := cond.map (·.2), tags := tags } := by
  have h : ∀ (cs : List (Char × Bool)) (P : Parts), P.elems = [] → cs ≠ [] →
      itemsParts (cs.map (fun p => Item.ch p.1 p.2)) P = { P with elems := [.text (cs.map (·.1))] } := by
    intro cs
    induction cs with
    | nil => intro P _ h; exact absurd rfl h
    | cons p r ih =>
      intro P hP _
      cases r with
      | nil => cases P; simp_all [itemsParts, Parts.consText, LineLex.consText]
      | cons q r' =>
        have := ih P hP (by simp)
        simp only [List.map_cons, itemsParts] at this ⊢
        rw [this]
        simp [Parts.consText, LineLex.consText]
  rw [expected, h cs _ rfl hne]

/-- C04.4 on literal text (`textMode_literal` of the design): every character survives, escaped or not, at every
    position, and nothing else appears -/
theorem textMode_literal (cs : List (Char × Bool)) (hne : cs ≠ [])
    (hv : Valid { items := cs.map (fun p => .ch p.1 p.2) }) :
    lexLine (render { items := cs.map (fun p => .ch p.1 p.2) }) =
      .line ⟨false, { elems := [.text (cs.map (·.1))], cond := none, tags := [] }⟩ := by
  rw [linelex_roundtrip _ hv, expected_chars cs hne none [] none]
  rfl

/-! ## Non-vacuity -/

section Example
open Expr BinOp

private def sum12 : List Written := spaced [] [(.num ['1'], ['1']), (.op add, ['+']), (.num ['2'], ['2'])]
private def xIs1 : List Written := spaced [' '] [(.var ['x'], ['$', 'x']), (.op eq, ['i', 's']), (.num ['1'], ['1'])]

/-- `Hi \#<\[{1 + 2}/<<if $x is 1 >>#t1 #a/b //note` -/
private def demo : Desc :=
  { items := [.ch 'H' false, .ch 'i' false, .ch ' ' false, .ch '#' true, .ch '<' false, .bracket false,
              .expr sum12 (bin add (.num ['1']) (.num ['2'])), .ch '/' false],
    cond := some (xIs1, bin eq (.var ['x']) (.num ['1'])),
    tags := [['t', '1'], ['a', '/', 'b']],
    comment := some ['n', 'o', 't', 'e'] }

example : render demo = "Hi \\#<\\[{1 + 2}/<<if $x is 1 >>#t1 #a/b //note".toList := rfl

private theorem demo_valid : Valid demo := by
  refine ⟨?_, ?_, ?_, ?_⟩
  · refine ⟨?_, ?_, ?_, ?_, ?_, ?_, rfl, ?_, trivial⟩
    · simp [okPlain]
    · simp [okPlain]
    · simp [okPlain]
    · decide
    · simp [okPlain, renderItems]
    · exact WOk_spaced _ [] rfl (fun s c r e => by
        simp only [List.nil_append, List.cons.injEq] at e; rw [← e.1]; exact okNext_brace s) _ (by decide)
    · simp [okPlain, renderItems, renderTail, renderCond, demo]
  · exact ⟨by decide, by simp, by simp⟩
  · intro t ht
    simp only [demo, List.mem_cons, List.not_mem_nil, or_false] at ht
    rcases ht with rfl | rfl <;> exact ⟨by simp, by decide⟩
  · exact ⟨WOk_spaced _ [' '] rfl (fun s c r e => by
      simp only [List.cons_append, List.nil_append, List.cons.injEq] at e; rw [← e.1]; exact okNext_space s) _
      (by decide), rfl⟩

/-- the theorem applies to it: the text is `Hi #<\[` … `/`, with `#` unescaped and `\[` kept -/
example : lexLine (render demo) = .line ⟨false,
    { elems := [.text "Hi #<\\[".toList, .expr (bin add (.num ['1']) (.num ['2'])), .text ['/']],
      cond := some (bin eq (.var ['x']) (.num ['1'])),
      tags := [['t', '1'], ['a', '/', 'b']] }⟩ := by
  rw [linelex_roundtrip demo demo_valid]
  rfl

/-- the model computes: the same by evaluation, and an illegal variant (unescaped `#` in the text) reads differently -/
example : lexLine "a \\# b #t".toList = .line ⟨false, { elems := [.text "a # b ".toList], tags := [['t']] }⟩ := rfl
example : lexLine "a # b #t".toList = .line ⟨false, { elems := [.text "a ".toList], tags := [['b'], ['t']] }⟩ := rfl
example : lexLine "a # b c".toList = .err := rfl
example : lexLine "\\[x".toList = .err := rfl
example : lexLine "x\\[".toList = .line ⟨false, { elems := [.text "x\\[".toList] }⟩ := rfl

end Example

end C04Lex
end Ysgo
