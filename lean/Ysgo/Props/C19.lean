import Ysgo.Lemmas.F64Num
import Mathlib.Algebra.Order.Floor.Ring
import Mathlib.Data.Rat.Floor
/-!
# C19 — numeric and conversion built-ins satisfy their contracts for all numbers

All statements are over exact values: `F64.val x : ℚ` is the exact rational value of the finite double `x`
(`F64.toRat?_eq_val : Finite x → toRat? x = some (val x)` links it to the model's `toRat?`), `F64.Finite` says
"neither NaN nor ±Inf", and the hypothesis `F64.Lt52 x` is the decidable predicate "exponent field < 1075" on the bits,
which is `|x| < 2^52` (`F64.lt52_iff_val : Finite x → (Lt52 x ↔ |val x| < 2^52)`).
The functions are the executable ones of `Ysgo/Model/NumBuiltins.lean` (validated bit for bit against Go).
-/
namespace Ysgo
namespace C19
open F64

/-- 2.5 -/ def x2_5 : F64 := ⟨4612811918334230528⟩
/-- -3.75 -/ def xm3_75 : F64 := ⟨13838998704956112896⟩
/-- 2^52 - 0.5, the largest double below 2^52 -/ def xbig : F64 := ⟨4841369599423283199⟩
/-- the smallest positive subnormal 2^-1074 -/ def xtiny : F64 := ⟨1⟩

/-! ### non-vacuity of the hypothesis and values of the sample inputs -/
example : Lt52 x2_5 ∧ Lt52 xm3_75 ∧ Lt52 xbig ∧ Lt52 xtiny ∧ Lt52 (zero true) := by decide
example : ¬ Lt52 ⟨4841369599423283200⟩ := by decide     -- 2^52 itself is excluded
example : val x2_5 = 5 / 2 := by
  have h : decode x2_5 = .fin false 5629499534213120 (-51) := by decide
  rw [val_of_decode h]; norm_num [fval, sgn]
example : val xm3_75 = -15 / 4 := by
  have h : decode xm3_75 = .fin true 8444249301319680 (-51) := by decide
  rw [val_of_decode h]; norm_num [fval, sgn]
example : ∀ x, Lt52 x → |val x| < 2 ^ 52 := fun _ h => (lt52_iff_val h.finite).mp h

/-! ### C19.1 floor and ceil -/

/-- `floor x` is an integer-valued double with `floor x ≤ x < floor x + 1` -/
theorem floor_contract (x : F64) (h : Lt52 x) :
    Finite (Num.floor x) ∧ IsInt (val (Num.floor x))
      ∧ val (Num.floor x) ≤ val x ∧ val x < val (Num.floor x) + 1 := by
  obtain ⟨F, hf, hv, h1, h2, -⟩ := floor_spec h
  unfold Num.floor
  rw [hv]
  exact ⟨hf, ⟨F, rfl⟩, h1, h2⟩

/-- the same, with Mathlib's floor on ℚ -/
theorem floor_eq_intFloor (x : F64) (h : Lt52 x) : val (Num.floor x) = (⌊val x⌋ : ℤ) := by
  obtain ⟨F, hf, hv, h1, h2, -⟩ := floor_spec h
  unfold Num.floor
  rw [hv, Int.floor_eq_iff.mpr ⟨h1, h2⟩]

example : Num.floor x2_5 = ⟨4611686018427387904⟩ := by decide      -- floor 2.5 = 2
example : Num.floor xm3_75 = ⟨13839561654909534208⟩ := by decide   -- floor -3.75 = -4

/-- `ceil x` is an integer-valued double with `ceil x - 1 < x ≤ ceil x` -/
theorem ceil_contract (x : F64) (h : Lt52 x) :
    Finite (Num.ceil x) ∧ IsInt (val (Num.ceil x))
      ∧ val (Num.ceil x) - 1 < val x ∧ val x ≤ val (Num.ceil x) := by
  obtain ⟨C, hf, hv, h1, h2, -⟩ := ceil_spec h
  unfold Num.ceil
  rw [hv]
  exact ⟨hf, ⟨C, rfl⟩, h1, h2⟩

theorem ceil_eq_intCeil (x : F64) (h : Lt52 x) : val (Num.ceil x) = (⌈val x⌉ : ℤ) := by
  obtain ⟨C, hf, hv, h1, h2, -⟩ := ceil_spec h
  unfold Num.ceil
  rw [hv, Int.ceil_eq_iff.mpr ⟨h1, h2⟩]

example : Num.ceil x2_5 = ⟨4613937818241073152⟩ := by decide       -- ceil 2.5 = 3
example : Num.ceil xm3_75 = ⟨13837309855095848960⟩ := by decide    -- ceil -3.75 = -3

/-! ### C19.2 inc and dec -/

/-- `inc x`, computed as the floating-point sum `floor x + 1`, is exact, and is the least integer greater than `x` -/
theorem inc_least_integer_above (x : F64) (h : Lt52 x) :
    Finite (Num.inc x) ∧ val (Num.inc x) = val (Num.floor x) + 1 ∧ IsInt (val (Num.inc x))
      ∧ val x < val (Num.inc x) ∧ ∀ z : ℤ, val x < (z : ℚ) → val (Num.inc x) ≤ (z : ℚ) := by
  obtain ⟨F, hf, hv, hfl, h1, h2⟩ := Num.inc_spec h
  unfold Num.floor
  rw [hv, hfl]
  refine ⟨hf, rfl, ⟨F + 1, by push_cast; rfl⟩, h2, ?_⟩
  intro z hz
  have : (F : ℚ) < (z : ℚ) := lt_of_le_of_lt h1 hz
  have : F + 1 ≤ z := by exact_mod_cast this
  exact_mod_cast this

example : Num.inc x2_5 = ⟨4613937818241073152⟩ := by decide        -- inc 2.5 = 3
example : Num.inc xm3_75 = ⟨13837309855095848960⟩ := by decide     -- inc -3.75 = -3
example : Num.inc ⟨4613937818241073152⟩ = ⟨4616189618054758400⟩ := by decide   -- inc 3 = 4
example : Num.inc xbig = ⟨4841369599423283200⟩ := by decide         -- inc (2^52 - 0.5) = 2^52

/-- `dec x`, computed as the floating-point difference `ceil x - 1`, is exact, and is the greatest integer less than `x` -/
theorem dec_greatest_integer_below (x : F64) (h : Lt52 x) :
    Finite (Num.dec x) ∧ val (Num.dec x) = val (Num.ceil x) - 1 ∧ IsInt (val (Num.dec x))
      ∧ val (Num.dec x) < val x ∧ ∀ z : ℤ, (z : ℚ) < val x → (z : ℚ) ≤ val (Num.dec x) := by
  obtain ⟨C, hf, hv, hcl, h1, h2⟩ := Num.dec_spec h
  unfold Num.ceil
  rw [hv, hcl]
  refine ⟨hf, rfl, ⟨C - 1, by push_cast; rfl⟩, h1, ?_⟩
  intro z hz
  have : (z : ℚ) < (C : ℚ) := lt_of_lt_of_le hz h2
  have : z ≤ C - 1 := by have : z < C := by exact_mod_cast this
                         omega
  exact_mod_cast this

example : Num.dec x2_5 = ⟨4611686018427387904⟩ := by decide        -- dec 2.5 = 2
example : Num.dec xm3_75 = ⟨13839561654909534208⟩ := by decide     -- dec -3.75 = -4

/-! ### C19.3 integer and decimal -/

/-- `integer x` truncates toward zero: it is the integer `T` with `|T| ≤ |x| < |T| + 1` and the sign of `x` -/
theorem integer_truncates (x : F64) (h : Lt52 x) :
    Finite (Num.integer x) ∧ IsInt (val (Num.integer x))
      ∧ |val (Num.integer x)| ≤ |val x| ∧ |val x| < |val (Num.integer x)| + 1
      ∧ 0 ≤ val (Num.integer x) * val x := by
  obtain ⟨s, q, r, k, hf, hv, hx, hr, -, -, -⟩ := trunc_spec h
  unfold Num.integer
  have hfr0 : (0 : ℚ) ≤ (r : ℚ) / 2 ^ k := by positivity
  have hfr1 : (r : ℚ) / 2 ^ k < 1 := by rw [div_lt_one (by positivity)]; exact hr
  have hq0 : (0 : ℚ) ≤ q := by positivity
  rw [hv, hx, abs_mul, abs_mul, abs_sgn, one_mul, one_mul, abs_of_nonneg hq0,
    abs_of_nonneg (by linarith)]
  refine ⟨hf, ?_, by linarith, by linarith, ?_⟩
  · cases s
    · exact ⟨q, by simp [sgn]⟩
    · exact ⟨-q, by simp [sgn]⟩
  · have : sgn s * (q : ℚ) * (sgn s * ((q : ℚ) + (r : ℚ) / 2 ^ k))
        = (sgn s * sgn s) * ((q : ℚ) * ((q : ℚ) + (r : ℚ) / 2 ^ k)) := by ring
    rw [this, sgn_sq, one_mul]
    positivity

example : Num.integer x2_5 = ⟨4611686018427387904⟩ := by decide       -- integer 2.5 = 2
example : Num.integer xm3_75 = ⟨13837309855095848960⟩ := by decide    -- integer -3.75 = -3

/-- `decimal x = x - integer x` is computed exactly and the floating-point sum `integer x + decimal x` is exactly `x`
(as a number: `-0` gives `+0`, which `==` does not distinguish) -/
theorem integer_plus_decimal (x : F64) (h : Lt52 x) :
    Finite (Num.decimal x) ∧ val (Num.decimal x) = val x - val (Num.integer x)
      ∧ Finite (F64.add (Num.integer x) (Num.decimal x))
      ∧ val (F64.add (Num.integer x) (Num.decimal x)) = val x
      ∧ F64.eq (F64.add (Num.integer x) (Num.decimal x)) x = true := by
  obtain ⟨h1, h2, h3, h4⟩ := Num.decimal_spec h
  exact ⟨h1, h2, h3, h4, (eq_iff_val h3 h.finite).mpr h4⟩

example : Num.decimal x2_5 = ⟨4602678819172646912⟩ := by decide       -- decimal 2.5 = 0.5
example : Num.decimal xm3_75 = ⟨13828302655841107968⟩ := by decide    -- decimal -3.75 = -0.75
example : F64.add (Num.integer xm3_75) (Num.decimal xm3_75) = xm3_75 := by decide

/-! ### C19.4 round -/

/-- `round x` is an integer-valued double within 1/2 of `x` -/
theorem round_contract (x : F64) (h : Lt52 x) :
    Finite (Num.round x) ∧ IsInt (val (Num.round x)) ∧ |val (Num.round x) - val x| ≤ 1 / 2 := by
  obtain ⟨R, hf, hv, h1, -⟩ := round_spec h
  unfold Num.round
  rw [hv]
  exact ⟨hf, ⟨R, rfl⟩, h1⟩

example : Num.round x2_5 = ⟨4613937818241073152⟩ := by decide         -- round 2.5 = 3 (half away from zero)
example : Num.round xm3_75 = ⟨13839561654909534208⟩ := by decide      -- round -3.75 = -4
example : Num.round ⟨13836183955189006336⟩ = ⟨13837309855095848960⟩ := by decide  -- round -2.5 = -3

end C19
end Ysgo
