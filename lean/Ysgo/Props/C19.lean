import Ysgo.Lemmas.F64Num
import Ysgo.Lemmas.F64Conv
import Ysgo.Lemmas.F64Places
import Mathlib.Algebra.Order.Floor.Ring
import Mathlib.Data.Rat.Floor
/-!
# C19 — numeric and conversion built-ins satisfy their contracts for all numbers

All statements are over exact values: `F64.val x : ℚ` is the exact rational value of the finite double `x`
(`F64.toRat?_eq_val : Finite x → toRat? x = some (val x)` links it to the model's `toRat?`), `F64.Finite` says
"neither NaN nor ±Inf", and the hypothesis `F64.Lt52 x` is the decidable predicate "exponent field < 1075" on the bits,
which is `|x| < 2^52` (`F64.lt52_iff_val : Finite x → (Lt52 x ↔ |val x| < 2^52)`).
The functions are the executable ones of `Ysgo/Model/NumBuiltins.lean` (validated bit for bit against Go).
-/
namespace Ysgo
namespace C19
open F64

/-- 2.5 -/ def x2_5 : F64 := ⟨4612811918334230528⟩
/-- -3.75 -/ def xm3_75 : F64 := ⟨13838998704956112896⟩
/-- 2^52 - 0.5, the largest double below 2^52 -/ def xbig : F64 := ⟨4841369599423283199⟩
/-- the smallest positive subnormal 2^-1074 -/ def xtiny : F64 := ⟨1⟩

/-! ### non-vacuity of the hypothesis and values of the sample inputs -/
example : Lt52 x2_5 ∧ Lt52 xm3_75 ∧ Lt52 xbig ∧ Lt52 xtiny ∧ Lt52 (zero true) := by decide
example : ¬ Lt52 ⟨4841369599423283200⟩ := by decide     -- 2^52 itself is excluded
example : val x2_5 = 5 / 2 := by
  have h : decode x2_5 = .fin false 5629499534213120 (-51) := by decide
  rw [val_of_decode h]; norm_num [fval, sgn]
example : val xm3_75 = -15 / 4 := by
  have h : decode xm3_75 = .fin true 8444249301319680 (-51) := by decide
  rw [val_of_decode h]; norm_num [fval, sgn]
example : ∀ x, Lt52 x → |val x| < 2 ^ 52 := fun _ h => (lt52_iff_val h.finite).mp h

/-! ### C19.1 floor and ceil -/

/-- `floor x` is an integer-valued double with `floor x ≤ x < floor x + 1` -/
theorem floor_contract (x : F64) (h : Lt52 x) :
    Finite (Num.floor x) ∧ IsInt (val (Num.floor x))
      ∧ val (Num.floor x) ≤ val x ∧ val x < val (Num.floor x) + 1 := by
  obtain ⟨F, hf, hv, h1, h2, -⟩ := floor_spec h
  unfold Num.floor
  rw [hv]
  exact ⟨hf, ⟨F, rfl⟩, h1, h2⟩

/-- the same, with Mathlib's floor on ℚ -/
theorem floor_eq_intFloor (x : F64) (h : Lt52 x) : val (Num.floor x) = (⌊val x⌋ : ℤ) := by
  obtain ⟨F, hf, hv, h1, h2, -⟩ := floor_spec h
  unfold Num.floor
  rw [hv, Int.floor_eq_iff.mpr ⟨h1, h2⟩]

example : Num.floor x2_5 = ⟨4611686018427387904⟩ := by decide      -- floor 2.5 = 2
example : Num.floor xm3_75 = ⟨13839561654909534208⟩ := by decide   -- floor -3.75 = -4

-- signed zero and the smallest subnormal
set_option exponentiation.threshold 1100 in
example : Num.floor (zero true) = zero true := by decide            -- floor -0 = -0
set_option exponentiation.threshold 1100 in
example : Num.floor xtiny = zero false := by decide                 -- floor 2^-1074 = 0
set_option exponentiation.threshold 1100 in
set_option maxRecDepth 2000 in
example : Num.ceil xtiny = ⟨4607182418800017408⟩ := by decide       -- ceil 2^-1074 = 1

/-- `ceil x` is an integer-valued double with `ceil x - 1 < x ≤ ceil x` -/
theorem ceil_contract (x : F64) (h : Lt52 x) :
    Finite (Num.ceil x) ∧ IsInt (val (Num.ceil x))
      ∧ val (Num.ceil x) - 1 < val x ∧ val x ≤ val (Num.ceil x) := by
  obtain ⟨C, hf, hv, h1, h2, -⟩ := ceil_spec h
  unfold Num.ceil
  rw [hv]
  exact ⟨hf, ⟨C, rfl⟩, h1, h2⟩

theorem ceil_eq_intCeil (x : F64) (h : Lt52 x) : val (Num.ceil x) = (⌈val x⌉ : ℤ) := by
  obtain ⟨C, hf, hv, h1, h2, -⟩ := ceil_spec h
  unfold Num.ceil
  rw [hv, Int.ceil_eq_iff.mpr ⟨h1, h2⟩]

example : Num.ceil x2_5 = ⟨4613937818241073152⟩ := by decide       -- ceil 2.5 = 3
example : Num.ceil xm3_75 = ⟨13837309855095848960⟩ := by decide    -- ceil -3.75 = -3

/-! ### C19.2 inc and dec -/

/-- `inc x`, computed as the floating-point sum `floor x + 1`, is exact, and is the least integer greater than `x` -/
theorem inc_least_integer_above (x : F64) (h : Lt52 x) :
    Finite (Num.inc x) ∧ val (Num.inc x) = val (Num.floor x) + 1 ∧ IsInt (val (Num.inc x))
      ∧ val x < val (Num.inc x) ∧ ∀ z : ℤ, val x < (z : ℚ) → val (Num.inc x) ≤ (z : ℚ) := by
  obtain ⟨F, hf, hv, hfl, h1, h2⟩ := Num.inc_spec h
  unfold Num.floor
  rw [hv, hfl]
  refine ⟨hf, rfl, ⟨F + 1, by push_cast; rfl⟩, h2, ?_⟩
  intro z hz
  have : (F : ℚ) < (z : ℚ) := lt_of_le_of_lt h1 hz
  have : F + 1 ≤ z := by exact_mod_cast this
  exact_mod_cast this

example : Num.inc x2_5 = ⟨4613937818241073152⟩ := by decide        -- inc 2.5 = 3
example : Num.inc xm3_75 = ⟨13837309855095848960⟩ := by decide     -- inc -3.75 = -3
example : Num.inc ⟨4613937818241073152⟩ = ⟨4616189618054758400⟩ := by decide   -- inc 3 = 4
example : Num.inc xbig = ⟨4841369599423283200⟩ := by decide         -- inc (2^52 - 0.5) = 2^52

set_option exponentiation.threshold 1100 in
set_option maxRecDepth 2000 in
example : Num.inc (zero true) = ⟨4607182418800017408⟩ := by decide  -- inc -0 = 1

/-- `dec x`, computed as the floating-point difference `ceil x - 1`, is exact, and is the greatest integer less than `x` -/
theorem dec_greatest_integer_below (x : F64) (h : Lt52 x) :
    Finite (Num.dec x) ∧ val (Num.dec x) = val (Num.ceil x) - 1 ∧ IsInt (val (Num.dec x))
      ∧ val (Num.dec x) < val x ∧ ∀ z : ℤ, (z : ℚ) < val x → (z : ℚ) ≤ val (Num.dec x) := by
  obtain ⟨C, hf, hv, hcl, h1, h2⟩ := Num.dec_spec h
  unfold Num.ceil
  rw [hv, hcl]
  refine ⟨hf, rfl, ⟨C - 1, by push_cast; rfl⟩, h1, ?_⟩
  intro z hz
  have : (z : ℚ) < (C : ℚ) := lt_of_lt_of_le hz h2
  have : z ≤ C - 1 := by have : z < C := by exact_mod_cast this
                         omega
  exact_mod_cast this

example : Num.dec x2_5 = ⟨4611686018427387904⟩ := by decide        -- dec 2.5 = 2
example : Num.dec xm3_75 = ⟨13839561654909534208⟩ := by decide     -- dec -3.75 = -4

/-! ### C19.3 integer and decimal -/

/-- `integer x` truncates toward zero: it is the integer `T` with `|T| ≤ |x| < |T| + 1` and the sign of `x` -/
theorem integer_truncates (x : F64) (h : Lt52 x) :
    Finite (Num.integer x) ∧ IsInt (val (Num.integer x))
      ∧ |val (Num.integer x)| ≤ |val x| ∧ |val x| < |val (Num.integer x)| + 1
      ∧ 0 ≤ val (Num.integer x) * val x := by
  obtain ⟨s, q, r, k, hf, hv, hx, hr, -, -, -⟩ := trunc_spec h
  unfold Num.integer
  have hfr0 : (0 : ℚ) ≤ (r : ℚ) / 2 ^ k := by positivity
  have hfr1 : (r : ℚ) / 2 ^ k < 1 := by rw [div_lt_one (by positivity)]; exact hr
  have hq0 : (0 : ℚ) ≤ q := by positivity
  rw [hv, hx, abs_mul, abs_mul, abs_sgn, one_mul, one_mul, abs_of_nonneg hq0,
    abs_of_nonneg (by linarith)]
  refine ⟨hf, ?_, by linarith, by linarith, ?_⟩
  · cases s
    · exact ⟨q, by simp [sgn]⟩
    · exact ⟨-q, by simp [sgn]⟩
  · have : sgn s * (q : ℚ) * (sgn s * ((q : ℚ) + (r : ℚ) / 2 ^ k))
        = (sgn s * sgn s) * ((q : ℚ) * ((q : ℚ) + (r : ℚ) / 2 ^ k)) := by ring
    rw [this, sgn_sq, one_mul]
    positivity

example : Num.integer x2_5 = ⟨4611686018427387904⟩ := by decide       -- integer 2.5 = 2
example : Num.integer xm3_75 = ⟨13837309855095848960⟩ := by decide    -- integer -3.75 = -3

/-- `decimal x = x - integer x` is computed exactly and the floating-point sum `integer x + decimal x` is exactly `x`
(as a number: `-0` gives `+0`, which `==` does not distinguish) -/
theorem integer_plus_decimal (x : F64) (h : Lt52 x) :
    Finite (Num.decimal x) ∧ val (Num.decimal x) = val x - val (Num.integer x)
      ∧ Finite (F64.add (Num.integer x) (Num.decimal x))
      ∧ val (F64.add (Num.integer x) (Num.decimal x)) = val x
      ∧ F64.eq (F64.add (Num.integer x) (Num.decimal x)) x = true := by
  obtain ⟨h1, h2, h3, h4⟩ := Num.decimal_spec h
  exact ⟨h1, h2, h3, h4, (eq_iff_val h3 h.finite).mpr h4⟩

example : Num.decimal x2_5 = ⟨4602678819172646912⟩ := by decide       -- decimal 2.5 = 0.5
example : Num.decimal xm3_75 = ⟨13828302655841107968⟩ := by decide    -- decimal -3.75 = -0.75
example : F64.add (Num.integer xm3_75) (Num.decimal xm3_75) = xm3_75 := by decide

set_option exponentiation.threshold 1100 in
set_option maxRecDepth 2000 in
example : Num.decimal xtiny = xtiny := by decide                      -- decimal 2^-1074 = 2^-1074

/-! ### C19.4 round -/

/-- `round x` is an integer-valued double within 1/2 of `x` -/
theorem round_contract (x : F64) (h : Lt52 x) :
    Finite (Num.round x) ∧ IsInt (val (Num.round x)) ∧ |val (Num.round x) - val x| ≤ 1 / 2 := by
  obtain ⟨R, hf, hv, h1, -⟩ := round_spec h
  unfold Num.round
  rw [hv]
  exact ⟨hf, ⟨R, rfl⟩, h1⟩

example : Num.round x2_5 = ⟨4613937818241073152⟩ := by decide         -- round 2.5 = 3 (half away from zero)
example : Num.round xm3_75 = ⟨13839561654909534208⟩ := by decide      -- round -3.75 = -4
example : Num.round ⟨13836183955189006336⟩ = ⟨13837309855095848960⟩ := by decide  -- round -2.5 = -3

/-! ### C19.5 round_places

`round_places x n = math.Round(x * math.Pow10(n)) / math.Pow10(n)`. The literal "within half a unit of the n-th decimal
place" cannot hold for any function returning doubles (see the example with 0.125 below); the theorem has the explicit
representation slack `2^-51 · max(|x|, 10^-n)` of DESIGN §5 C19.5, which accounts for the one rounded multiplication
and the one rounded division (each of relative error ≤ 2^-53). -/

/-- `|round_places x n − x| ≤ ½·10⁻ⁿ + 2⁻⁵¹·max(|x|, 10⁻ⁿ)` for `|x| < 2^52`, `0 ≤ n ≤ 8` -/
theorem round_places_contract (x : F64) (h : Lt52 x) (n : ℕ) (hn : n ≤ 8) :
    Finite (Num.roundPlaces x (n : ℤ)) ∧
      |val (Num.roundPlaces x (n : ℤ)) - val x|
        ≤ (1 / 2) * (1 / (10 : ℚ) ^ n) + (1 / 2 ^ 51) * max |val x| (1 / (10 : ℚ) ^ n) := by
  obtain ⟨hf, he⟩ := Num.roundPlaces_spec h n hn
  refine ⟨hf, le_trans he (le_of_eq ?_)⟩
  have h1 : (4 : ℚ) * 2 ^ (-53 : ℤ) = 1 / 2 ^ 51 := by norm_num
  rw [h1]
  have hT0 : (0 : ℚ) < (10 : ℚ) ^ n := by positivity
  field_simp

/-- the same with the number of places as the integer argument the built-in receives -/
theorem round_places_contract_int (x : F64) (h : Lt52 x) (places : ℤ) (h0 : 0 ≤ places) (h8 : places ≤ 8) :
    Finite (Num.roundPlaces x places) ∧
      |val (Num.roundPlaces x places) - val x|
        ≤ (1 / 2) * (1 / (10 : ℚ) ^ places.toNat) + (1 / 2 ^ 51) * max |val x| (1 / (10 : ℚ) ^ places.toNat) := by
  have := round_places_contract x h places.toNat (by omega)
  rwa [Int.toNat_of_nonneg h0] at this

/-- 0.125 -/ def x0_125 : F64 := ⟨4593671619917905920⟩
/-- the double nearest to 0.13 -/ def x0_13 : F64 := ⟨4593851763903000740⟩
example : Lt52 x0_125 := by decide
example : Num.roundPlaces x0_125 2 = x0_13 := by decide                 -- round_places(0.125, 2) = 0.13
example : Num.roundPlaces xm3_75 1 = ⟨13839111294946797158⟩ := by decide  -- round_places(-3.75, 1) = -3.8
example : Num.roundPlaces x2_5 0 = ⟨4613937818241073152⟩ := by decide     -- round_places(2.5, 0) = 3
example : Num.roundPlaces ⟨4653144502051863213⟩ 2 = ⟨4653144511727565537⟩ := by decide  -- 1234.5678 ↦ 1234.57
/-- why the slack is needed: the correctly rounded answer 0.13 is a double at distance > 0.005 from 0.125, so
"within half a unit of the 2nd decimal place" fails for the best possible result -/
example : val x0_13 - val x0_125 > (1 / 2) * (1 / (10 : ℚ) ^ 2) := by
  have h1 : decode x0_13 = .fin false 4683743612465316 (-55) := by decide
  have h2 : decode x0_125 = .fin false 4503599627370496 (-55) := by decide
  rw [val_of_decode h1, val_of_decode h2]; norm_num [fval, sgn]

/-! ### C19.6 conversions: `number (string x) == x`, `bool (string b) = b`

`string x` is `display x` (`Value.ToString`), `number s` is `parseFloat s` (`strconv.ParseFloat`), `bool s` is
`Num.parseBool s` (`strconv.ParseBool`). The clauses "string/number/bool of a value already of that type is the
identity" are about the built-in dispatcher and live with its model. -/

/-- integral branch, fully proved: an integer-valued `x` is displayed by `Itoa` and parses back to a double that is
numerically equal to `x` (it is `x` itself except that `-0` comes back as `+0`) -/
theorem number_string_roundtrip_integral (x : F64) (h : Lt52 x) (hint : IsInt (val x)) :
    ∃ y, parseFloat (display x) = .val y ∧ Finite y ∧ val y = val x ∧ F64.eq y x = true := by
  obtain ⟨hdisp, hf, hv⟩ := display_of_isInt h hint
  obtain ⟨hs, -, -⟩ := toInt64_spec h
  refine ⟨ofInt (toInt64 x), ?_, hf, hv, (eq_iff_val hf h.finite).mpr hv⟩
  rw [hdisp]
  exact parseFloat_itoa _ (by unfold P52 P53 at *; omega)

/-- the underlying fact: printing an integer below 2^53 in decimal and parsing it back gives its double -/
theorem parseFloat_itoa_ofInt (i : ℤ) (h : i.natAbs < P53) :
    parseFloat (itoa i) = .val (ofInt i) ∧ Finite (ofInt i) ∧ val (ofInt i) = (i : ℚ) :=
  ⟨parseFloat_itoa i h, ofInt_val i h⟩

/-- non-integral branch: `display x` is `fmt.Sprint x`; the round trip of Go's shortest formatting through
`strconv.ParseFloat` is the explicit premise `strconv_roundtrip` (a hypothesis, not an axiom; it is what the
`numeric` stream samples) -/
theorem number_string_roundtrip_nonintegral (x : F64) (h : Lt52 x) (hnint : ¬ IsInt (val x))
    (strconv_roundtrip : parseFloat (fmtG x) = .val x) :
    parseFloat (display x) = .val x := by
  rw [display_of_not_isInt h hnint]; exact strconv_roundtrip

/-- both branches: `number (string x) == x` for every `|x| < 2^52`, the premise being needed only for non-integers -/
theorem number_string_roundtrip (x : F64) (h : Lt52 x)
    (strconv_roundtrip : ¬ IsInt (val x) → parseFloat (fmtG x) = .val x) :
    ∃ y, parseFloat (display x) = .val y ∧ Finite y ∧ val y = val x ∧ F64.eq y x = true := by
  by_cases hint : IsInt (val x)
  · exact number_string_roundtrip_integral x h hint
  · exact ⟨x, number_string_roundtrip_nonintegral x h hint (strconv_roundtrip hint), h.finite, rfl,
      (eq_iff_val h.finite h.finite).mpr rfl⟩

/-- 3.0 -/ def x3 : F64 := ⟨4613937818241073152⟩
example : Lt52 x3 ∧ IsInt (val x3) := by
  refine ⟨by decide, 3, ?_⟩
  have h : decode x3 = .fin false 6755399441055744 (-51) := by decide
  rw [val_of_decode h]; norm_num [fval, sgn]
example : ¬ IsInt (val x2_5) := by
  have h : decode x2_5 = .fin false 5629499534213120 (-51) := by decide
  rw [val_of_decode h]
  rintro ⟨z, hz⟩
  have h2 : (2 * z : ℤ) = 5 := by
    have : (2 : ℚ) * z = 5 := by rw [← hz]; norm_num [fval, sgn]
    exact_mod_cast this
  omega
example : display x3 = "3" ∧ (parseFloat "3").val? = some x3 := by decide
example : display ⟨13837309855095848960⟩ = "-3" ∧ (parseFloat "-3").val? = some ⟨13837309855095848960⟩ := by decide
-- -0 is displayed as "0" and comes back as +0, which is `==` to -0
set_option exponentiation.threshold 1100 in
example : display (zero true) = "0" ∧ (parseFloat "0").val? = some (zero false)
    ∧ F64.eq (zero false) (zero true) = true := by decide

/-- `bool (string b) = b`: `Value.ToString` writes booleans as `True` / `False` -/
theorem parseBool_display (b : Bool) : Num.parseBool (if b then "True" else "False") = some b := by
  cases b <;> decide

/-- a string that is neither a number nor a boolean is an error (samples of the modelled parsers) -/
example : Num.parseBool "yes" = none ∧ Num.parseBool "TrUe" = none ∧ Num.parseBool "" = none := by decide
example : (parseFloat "abc").val? = none ∧ (parseFloat "").val? = none ∧ (parseFloat "1.5x").val? = none := by
  decide

end C19
end Ysgo
