import Ysgo.Generated.NumFacts
import Ysgo.Model.NumBuiltins
/-!
# C19 — translated facts: the numeric built-ins, regenerated from the source on every run

`tools/numfacts` translates (go/ast) the bodies of `round`, `roundPlaces`, `floor`, `ceil`, `inc`, `dec`, `decimal`,
`integer` in `base_functions.go` into terms of `FE` (`Generated/NumFacts.lean`). `FE.eval` gives the terms their Go
meaning over the `F64` model, and the theorems below prove that the code as translated just now computes, for every
argument, exactly what the hand-written model `Ysgo.Num.*` (about which the C19 contracts are proved) computes. A
change of a body (`floor(f) + 1` → `floor(f + 1)`, another `math` function, swapped operands) regenerates another term
and breaks the theorem; a rewrite that means the same (`1.0` for `1`, an extra local variable, parentheses) does not.
-/
namespace Ysgo.C19Facts
open Ysgo Ysgo.FE

abbrev src := Generated.numBuiltinSrc

theorem round_is_model (x : F64) : run src "round" [.f x] = some (.f (Num.round x)) := rfl
theorem floor_is_model (x : F64) : run src "floor" [.f x] = some (.f (Num.floor x)) := rfl
theorem ceil_is_model (x : F64) : run src "ceil" [.f x] = some (.f (Num.ceil x)) := rfl
theorem integer_is_model (x : F64) : run src "integer" [.f x] = some (.f (Num.integer x)) := rfl
theorem inc_is_model (x : F64) : run src "inc" [.f x] = some (.f (Num.inc x)) := rfl
theorem dec_is_model (x : F64) : run src "dec" [.f x] = some (.f (Num.dec x)) := rfl
theorem decimal_is_model (x : F64) : run src "decimal" [.f x] = some (.f (Num.decimal x)) := rfl
theorem roundPlaces_is_model (x : F64) (n : Int) : run src "roundPlaces" [.f x, .i n] = some (.f (Num.roundPlaces x n)) := rfl

/-- all eight at once: the translated source is the model -/
theorem numBuiltins_are_model (x : F64) (n : Int) :
    run src "round" [.f x] = some (.f (Num.round x)) ∧ run src "round_places" [.f x, .i n] = none ∧
    run src "roundPlaces" [.f x, .i n] = some (.f (Num.roundPlaces x n)) ∧
    run src "floor" [.f x] = some (.f (Num.floor x)) ∧ run src "ceil" [.f x] = some (.f (Num.ceil x)) ∧
    run src "inc" [.f x] = some (.f (Num.inc x)) ∧ run src "dec" [.f x] = some (.f (Num.dec x)) ∧
    run src "decimal" [.f x] = some (.f (Num.decimal x)) ∧ run src "integer" [.f x] = some (.f (Num.integer x)) :=
  ⟨rfl, rfl, rfl, rfl, rfl, rfl, rfl, rfl, rfl⟩

/-- the interpreter is not trivially agreeable: what the translator does not understand has no value, and the seeded
rewrite `floor(f + 1)` is a different function (it differs from the model at the double just below 2) -/
example : FE.eval (run src) [("f", .f (F64.ofInt 1))] (.unsupported "x") = none := rfl
example : (FE.eval (run src) [("f", .f ⟨4611686018427387903⟩)] (.call1 "floor" (.bin "+" (.var "f") (.lit 1)))).map
      (fun v => (FE.asF v).bits) = some (F64.ofInt 3).bits ∧
    (Num.inc ⟨4611686018427387903⟩).bits = (F64.ofInt 2).bits := by decide +kernel

end Ysgo.C19Facts
