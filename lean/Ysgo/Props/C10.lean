import Ysgo.Model.Runner
import Ysgo.Model.Command
import Ysgo.Lemmas.NoPanic
/-!
# C10 — Pending commands: Next never blocks, resumes once, handlers run exactly once

The channel of a dispatched command is a mailbox `pending : Option (Option Bool)`: `some none` while the command is
running, `some (some failed)` once its completion has arrived; when the completion arrives relative to the calls of
`Next` is chosen by the environment (the operation sequence), so the theorems hold for every completion schedule.
Not exhibitable by this model (named in DESIGN.md §7): data races between `Next` and the handler goroutine, and that
`time.Sleep` sleeps long enough.
-/
namespace Ysgo.C10
open Ysgo
set_option linter.unusedSimpArgs false

variable {σ π μ : Type}

/-- C10.1 `pending_next_is_noop`: while the command has not reported completion `Next` answers `waiting` at once,
for every argument, and the state — variables, visit counts, continuation, host state incl. its invocation log — is
exactly what it was: no side effects, nothing else started -/
theorem pending_next_is_noop (env : Env σ) (mk : Markup π μ) (p : Program) (r : R σ π) (h : r.d.pending = some none)
    (f c : Nat) : r.next env mk p (f + 1) c = (r, .out (.ok .waiting)) := by
  unfold R.next
  simp [R.micro, poll, h]

/-- C10.2 `resumes_after_completion`: once completion is reported with success the dialogue resumes exactly as if no
command had been pending: at the statement after the command -/
theorem resumes_after_completion (env : Env σ) (mk : Markup π μ) (p : Program) (r : R σ π) (h : r.d.pending = some (some false))
    (f c : Nat) :
    r.next env mk p (f + 1) c = ({ r with d := { r.d with pending := none } } : R σ π).next env mk p (f + 1) c := by
  unfold R.next
  simp [R.micro, poll, h]

/-- a reported error is surfaced by the next call of `Next`, which consumes it … -/
theorem error_surfaced (env : Env σ) (mk : Markup π μ) (p : Program) (r : R σ π) (h : r.d.pending = some (some true))
    (f c : Nat) :
    r.next env mk p (f + 1) c = ({ r with d := { r.d with pending := none } }, .out (.err .cmdFailed)) := by
  unfold R.next
  simp [R.micro, poll, h]

/-- … exactly once: the call after that finds nothing pending and continues with the dialogue -/
theorem error_surfaced_exactly_once (env : Env σ) (mk : Markup π μ) (p : Program) (r : R σ π) (h : r.d.pending = some (some true))
    (f c : Nat) : (r.next env mk p (f + 1) c).1.d.pending = none := by
  rw [error_surfaced env mk p r h f c]

/-- polling never touches the host: no handler is invoked by the wait itself -/
theorem poll_keeps_host (d : Data σ π) : (poll (μ := μ) d).1.w = d.w ∧ (poll (μ := μ) d).1.store = d.store := by
  unfold poll
  split
  · simp
  · simp
  · split <;> simp

/-- C10.3 `handler_invoked_exactly_once`: an executed command statement evaluates its elements once, left to right,
and invokes the handler registered under the first word exactly once, with the remaining evaluated values in order;
the host state afterwards is the one the handler left -/
theorem handler_invoked_exactly_once (env : Env σ) (mk : Markup π μ) (p : Program) (d : Data σ π) (e : Expr) (es : List Expr)
    (name : String) (args : List Value) (w : W σ)
    (he : evalArgs env d.store d.visited (e :: es) d.w = (.ok (.str name :: args), w)) (hs : name ≠ "stop") :
    (exec env mk p d (.cmd (e :: es))).1.w = { w with host := (env.cmd name args w.host).2 } := by
  simp only [exec, he, hs, if_false]
  cases hc : env.cmd name args w.host with
  | mk co h => cases co <;> simp

/-- `<<stop>>` is never dispatched to a handler -/
theorem stop_is_never_dispatched (env : Env σ) (mk : Markup π μ) (p : Program) (d : Data σ π) (e : Expr) (es : List Expr)
    (args : List Value) (w : W σ) (he : evalArgs env d.store d.visited (e :: es) d.w = (.ok (.str "stop" :: args), w)) :
    exec env mk p d (.cmd (e :: es)) = ({ d with w := w }, .halt, some (.ok .ended)) := by
  simp [exec, he]

/-- a command whose handler has not completed on return leaves the runner waiting; one that has completed lets the
dialogue continue at once; a failed one is an error of this very call -/
theorem dispatch_outcomes (env : Env σ) (mk : Markup π μ) (p : Program) (d : Data σ π) (e : Expr) (es : List Expr)
    (name : String) (args : List Value) (w : W σ) (h : σ) (co : CmdOutcome)
    (he : evalArgs env d.store d.visited (e :: es) d.w = (.ok (.str name :: args), w)) (hs : name ≠ "stop")
    (hc : env.cmd name args w.host = (co, h)) :
    (exec env mk p d (.cmd (e :: es))).2.2 =
      match co with
      | .done => none
      | .failed => some (.err .cmdFailed)
      | .unknown => some (.err .unknownCmd)
      | .pending => some (.ok .waiting)
      | .panicked => some (.panic .host) := by
  simp only [exec, he, hs, if_false, hc]
  cases co <;> rfl

/-! ### C10.4 the duration of `<<wait n>>` -/

/-- half a second is 500 000 000 ns, 50 ms is 50 000 000 ns (fractional seconds are not truncated away),
and absurdly long waits saturate instead of overflowing to a negative duration -/
example : Command.waitNanos ⟨4602678819172646912⟩ = 500000000 := by decide   -- 0.5
example : Command.waitNanos ⟨4587366580439587226⟩ = 50000000 := by decide    -- 0.05
example : Command.waitNanos ⟨4611686018427387904⟩ = 2000000000 := by decide  -- 2
example : Command.waitNanos ⟨4756540486875873280⟩ = Command.maxInt64 := by decide  -- 1e10 seconds

/-- `wait_duration`: the duration is never negative and never exceeds the representable maximum -/
theorem wait_duration_bounds (x : F64) : -(P63 : Int) ≤ Command.waitNanos x ∧ Command.waitNanos x ≤ Command.maxInt64 := by
  unfold Command.waitNanos Command.maxInt64
  simp only
  split
  · unfold P63; omega
  · have := toInt64_range (x.mul Command.nanosPerSecond)
    unfold P63 at *; omega

/-- non-vacuity of the pending theorems: a runner with a running command -/
example : ∃ r : R Unit Unit, r.d.pending = some none :=
  ⟨{ d := { cur := "n", pending := some none, w := ⟨(), default⟩, ms := () }, stack := [] }, rfl⟩

end Ysgo.C10
