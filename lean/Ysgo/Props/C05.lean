import Ysgo.Model.Load
/-!
# C05 — Loading any input yields a runner or an error; bad syntax is an error

PARTIAL by nature (DESIGN.md §7): what is proved is the decision logic around the parser and the totality of the seed
conversion; "the ANTLR runtime, the generated parser and the tree builder never panic on any byte sequence" is sampled by
the `load` stream (the parser is an oracle of the model), where every case also checks the oracle contract.
-/
namespace Ysgo.C05
open Ysgo Ysgo.Load
set_option linter.unusedSimpArgs false

/-- C05.1 `load_decision`: under the grammar's contract, loading is an error exactly when there is no reader, or some
reader is not a syntactically valid script, or the seed is invalid; otherwise a runner — and it never panics -/
theorem load_decision (rs : List ReaderOracle) (seed : String) (hc : OracleContract rs) :
    (load rs seed = .err ↔ (rs = [] ∨ (∃ r ∈ rs, r.syntaxErrors > 0) ∨ validSeed seed = false)) ∧
    (load rs seed = .runner ↔ (rs ≠ [] ∧ (∀ r ∈ rs, r.syntaxErrors = 0) ∧ validSeed seed = true)) ∧
    load rs seed ≠ .panic := by
  by_cases h1 : rs = []
  · subst h1; simp [load]
  have hemp : rs.isEmpty = false := by cases rs <;> simp_all
  by_cases h2 : ∃ r ∈ rs, r.syntaxErrors > 0
  · have hany : rs.any (fun r => decide (r.syntaxErrors > 0)) = true := by simpa using h2
    have hnall : ¬ ∀ r ∈ rs, r.syntaxErrors = 0 := by
      intro hall; obtain ⟨x, hx, hpos⟩ := h2; have := hall x hx; omega
    simp [load, hemp, hany, h1, h2, hnall]
  · have hany : rs.any (fun r => decide (r.syntaxErrors > 0)) = false := by
      cases h : rs.any (fun r => decide (r.syntaxErrors > 0)) with
      | false => rfl
      | true => exact absurd (by simpa using h) h2
    have hall : ∀ x ∈ rs, x.syntaxErrors = 0 := by
      intro x hx
      have : ¬ x.syntaxErrors > 0 := fun hpos => h2 ⟨x, hx, hpos⟩
      omega
    have hnodes : (rs.map (·.nodes)).sum ≠ 0 := by
      cases rs with
      | nil => exact absurd rfl h1
      | cons r rest =>
        have := hc r (by simp) (hall r (by simp))
        simp only [List.map_cons, List.sum_cons]
        omega
    cases hv : validSeed seed <;> simp [load, hemp, hany, hnodes, h1, h2, hall, hv] <;> exact hall

/-- the characters a seed may consist of -/
def seedChar (c : Char) : Bool := decide ('0' ≤ c ∧ c ≤ '9') || decide ('a' ≤ c ∧ c ≤ 'z')

/-- C05.2 `seed_total`: the seed conversion is total: for every string a value or "invalid", never a panic, and it
accepts exactly the strings over `[0-9a-z]` -/
theorem seed_accepts_iff (s : String) : (Rng.seedToInt64 s).isSome = s.toList.all seedChar := by
  unfold Rng.seedToInt64
  generalize s.toList = cs
  have key : ∀ (cs : List Char) (acc : Option Int),
      (cs.foldl Rng.seedStep acc).isSome = (acc.isSome && cs.all seedChar) := by
    intro cs
    induction cs with
    | nil => intro acc; simp
    | cons c cs ih =>
      intro acc
      simp only [List.foldl_cons, List.all_cons]
      rw [ih]
      cases acc with
      | none => simp [Rng.seedStep]
      | some r =>
        by_cases h1 : '0' ≤ c ∧ c ≤ '9'
        · simp [h1, seedChar, Rng.seedStep]
        · by_cases h2 : 'a' ≤ c ∧ c ≤ 'z'
          · simp [h1, h2, seedChar, Rng.seedStep]
          · simp [h1, h2, seedChar, Rng.seedStep]
  rw [key]; simp

/-- the value of an accepted seed stays inside int64 whatever its length (wrap-around instead of overflow panic) -/
theorem seed_in_int64 (s : String) (v : Int) (h : Rng.seedToInt64 s = some v) : -(P63 : Int) ≤ v ∧ v < (P63 : Int) := by
  unfold Rng.seedToInt64 at h
  have wr : ∀ i : Int, -(P63 : Int) ≤ Rng.wrap64 i ∧ Rng.wrap64 i < (P63 : Int) := by
    intro i
    unfold Rng.wrap64
    have hM : (P64 : Int) = 2 * (P63 : Int) := by unfold P63 P64; omega
    have hH : (0 : Int) < (P63 : Int) := by unfold P63; omega
    have h1 := Int.emod_nonneg i (show (P64 : Int) ≠ 0 by omega)
    have h2 := Int.emod_lt_of_pos i (show (0 : Int) < (P64 : Int) by omega)
    simp only
    split <;> omega
  have key : ∀ (cs : List Char) (acc : Option Int), (∀ a, acc = some a → -(P63 : Int) ≤ a ∧ a < (P63 : Int)) →
      ∀ v, cs.foldl Rng.seedStep acc = some v → -(P63 : Int) ≤ v ∧ v < (P63 : Int) := by
    intro cs
    induction cs with
    | nil => intro acc hacc v hv; simp at hv; exact hacc v hv
    | cons c cs ih =>
      intro acc hacc v hv
      simp only [List.foldl_cons] at hv
      apply ih _ _ v hv
      intro a ha
      cases acc with
      | none => simp [Rng.seedStep] at ha
      | some r =>
        simp only [Rng.seedStep] at ha
        split at ha
        · cases ha; exact wr _
        · split at ha
          · cases ha; exact wr _
          · cases ha
  exact key s.toList (some 0) (by intro a ha; cases ha; unfold P63; omega) v h

/-- non-vacuity: a clean one-node reader with a good seed loads; a reader with one syntax error does not; no reader is an error -/
example : load [⟨0, 1⟩] "abc" = .runner ∧ load [⟨0, 1⟩, ⟨1, 0⟩] "abc" = .err ∧ load [] "abc" = .err ∧ load [⟨0, 2⟩] "A" = .err := by
  decide

end Ysgo.C05
