import Ysgo.Spec.OpTable
/-!
# C02 — Expressions follow Yarn's operator table and short-circuiting (evaluation half; the precedence half is
`Props/C02Syntax.lean`)
-/
namespace Ysgo.C02
open Ysgo
set_option linter.unusedSimpArgs false

variable {σ : Type}

/-- C02.1 `evalBin_eq_table`: on two evaluated operands the evaluator computes exactly the operator table — except
that a lazily decided `and`/`or` does not look at its right operand (the property's own short-circuit clause) -/
theorem evalBin_eq_table (op : BinOp) (a b : Value) :
    sameVal (evalBinValues op a b) (OpTable op a b) ∨
    ((op = .and ∨ op = .or) ∧ a.ty = .bool ∧ b.ty ≠ .bool) := by
  cases op <;> cases a <;> cases b <;>
    simp [evalBinValues, lazyTest, binAfter, binSwitch, OpTable, sameVal, Value.ty, numBin, numCmp, F64.ne] <;>
    (try (rename_i x y; cases x <;> cases y <;> simp [sameVal])) <;>
    (try (rename_i x y; cases x <;> simp [sameVal]))

/-- when the left operand does not decide the result, `and`/`or` are the table too -/
theorem and_or_table (x y : Bool) :
    evalBinValues .and (.bool true) (.bool y) = .ok (.bool (true && y)) ∧
    evalBinValues .or (.bool false) (.bool y) = .ok (.bool (false || y)) ∧
    evalBinValues .and (.bool false) (.bool y) = .ok (.bool (false && y)) ∧
    evalBinValues .or (.bool true) (.bool y) = .ok (.bool (true || y)) := by
  simp [evalBinValues, lazyTest, binAfter, binSwitch, Value.ty]

/-- C02.2 `ill_typed_never_value`: an ill-typed operation on the operands that are evaluated yields an error -/
theorem ill_typed_never_value (op : BinOp) (a b : Value) (h : wellTyped op a.ty b.ty = false)
    (hlazy : lazyTest op a = none) : ∃ k, evalBinValues op a b = .err k := by
  unfold evalBinValues
  rw [hlazy]
  cases op <;> cases a <;> cases b <;>
    simp_all [wellTyped, binAfter, binSwitch, Value.ty, numBin, numCmp, lazyTest]

theorem ill_typed_left_of_and_or (op : BinOp) (a b : Value) (hop : op = .and ∨ op = .or) (h : a.ty ≠ .bool) :
    ∃ k, evalBinValues op a b = .err k := by
  rcases hop with h1 | h1 <;> subst h1 <;> cases a <;> simp_all [evalBinValues, lazyTest, Value.ty]

theorem neg_of_non_number_is_error (env : Env σ) (st : Store) (vis : Map Nat) (e : Expr) (w w' : W σ) (v : Value)
    (he : eval env st vis e w = (.ok v, w')) (h : v.ty ≠ .num) : eval env st vis (.neg e) w = (.err .illTyped, w') := by
  cases v <;> simp_all [eval, Value.ty]

theorem not_of_non_boolean_is_error (env : Env σ) (st : Store) (vis : Map Nat) (e : Expr) (w w' : W σ) (v : Value)
    (he : eval env st vis e w = (.ok v, w')) (h : v.ty ≠ .bool) : eval env st vis (.not e) w = (.err .illTyped, w') := by
  cases v <;> simp_all [eval, Value.ty]

/-- the evaluator applies the value-level operator to the two operand values, left operand first -/
theorem eval_bin (env : Env σ) (st : Store) (vis : Map Nat) (op : BinOp) (l r : Expr) (w w₁ w₂ : W σ) (a b : Value)
    (hl : eval env st vis l w = (.ok a, w₁)) (hz : lazyTest op a = none) (hr : eval env st vis r w₁ = (.ok b, w₂)) :
    eval env st vis (.bin op l r) w = (evalBinValues op a b, w₂) := by
  simp [eval, hl, hz, hr, evalBinValues]

/-- C02.3 `and_short_circuit`: if the left operand of `and` is false the result is false and the world (host state
incl. its invocation log, RNG) is the world after the LEFT operand only: the right operand is not evaluated -/
theorem and_short_circuit (env : Env σ) (st : Store) (vis : Map Nat) (l r : Expr) (w w' : W σ)
    (hl : eval env st vis l w = (.ok (.bool false), w')) :
    eval env st vis (.bin .and l r) w = (.ok (.bool false), w') := by
  simp [eval, hl, lazyTest]

theorem or_short_circuit (env : Env σ) (st : Store) (vis : Map Nat) (l r : Expr) (w w' : W σ)
    (hl : eval env st vis l w = (.ok (.bool true), w')) :
    eval env st vis (.bin .or l r) w = (.ok (.bool true), w') := by
  simp [eval, hl, lazyTest]

/-- … and otherwise the right operand is evaluated exactly once, after the left one -/
theorem and_evaluates_right_when_needed (env : Env σ) (st : Store) (vis : Map Nat) (l r : Expr) (w w₁ : W σ)
    (hl : eval env st vis l w = (.ok (.bool true), w₁)) :
    eval env st vis (.bin .and l r) w =
      match eval env st vis r w₁ with
      | (.ok b, w₂) => (binAfter .and (.bool true) b, w₂)
      | res => res := by
  simp only [eval, hl, lazyTest]
  rfl

/-- C02.4 `args_left_to_right_once`: arguments are evaluated left to right, each exactly once, threading the world;
the first failing argument stops the evaluation (later arguments are not evaluated, the function is not called) -/
theorem args_left_to_right (env : Env σ) (st : Store) (vis : Map Nat) (e : Expr) (es : List Expr) (w w₁ w₂ : W σ)
    (v : Value) (vs : List Value) (h1 : eval env st vis e w = (.ok v, w₁)) (h2 : evalArgs env st vis es w₁ = (.ok vs, w₂)) :
    evalArgs env st vis (e :: es) w = (.ok (v :: vs), w₂) := by
  simp [evalArgs, h1, h2]

theorem failing_argument_stops_evaluation (env : Env σ) (st : Store) (vis : Map Nat) (e : Expr) (es : List Expr) (w w₁ : W σ)
    (k : ErrKind) (h1 : eval env st vis e w = (.err k, w₁)) :
    evalArgs env st vis (e :: es) w = (.err k, w₁) := by
  simp [evalArgs, h1]

theorem failing_arguments_prevent_the_call (env : Env σ) (st : Store) (vis : Map Nat) (f : String) (args : List Expr) (w w₁ : W σ)
    (k : ErrKind) (h1 : evalArgs env st vis args w = (.err k, w₁)) :
    eval env st vis (.call f args) w = (.err k, w₁) := by
  simp [eval, h1]

/-- the function is called exactly once, after all its arguments, with their values in order -/
theorem call_after_arguments (env : Env σ) (st : Store) (vis : Map Nat) (f : String) (args : List Expr) (w w₁ : W σ)
    (vs : List Value) (h1 : evalArgs env st vis args w = (.ok vs, w₁)) :
    (eval env st vis (.call f args) w).2 = (callFn env vis f vs w₁).2 := by
  simp only [eval, h1]
  cases hc : callFn env vis f vs w₁ with
  | mk o w₂ => cases o with
    | ok ov => cases ov <;> rfl
    | err k => rfl
    | panic q => rfl

/-- non-vacuity: `false and <anything>` is false; `1 + "a"` is an error; `"a" + "b"` concatenates -/
example : evalBinValues .add (.str "a") (.str "b") = .ok (.str "ab") := by
  simp [evalBinValues, lazyTest, binAfter, binSwitch, Value.ty]
example : ∃ k, evalBinValues .add (.num (F64.ofInt 1)) (.str "a") = .err k :=
  ill_typed_never_value .add _ _ rfl rfl

end Ysgo.C02
