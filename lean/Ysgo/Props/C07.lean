import Ysgo.Model.Runner
/-!
# C07 — Snapshots are self-contained checkpoints; restore resumes from node entry

The model has value semantics: a snapshot is a value (variables, visit counts, node). Aliasing — a Go snapshot sharing
a map with the runner — cannot be expressed in such a model; it shows as a divergence of the correspondence stream,
where every snapshot taken is re-observed after every later operation. What is proved here is the value-level
contract: what a snapshot contains (the state as of the most recent node entry), what restoring it produces
(exactly the node-entry state, whatever the receiving runner was doing), and that a failed restore changes nothing.
-/
namespace Ysgo.C07
open Ysgo
set_option linter.unusedSimpArgs false

variable {σ π μ : Type}

theorem find_title {p : Program} {t : String} {n : Node} (h : p.find t = some n) : n.title = t := by
  unfold Program.find at h
  have := List.find?_some h
  simpa using this

/-! ### 1. a snapshot is the state as of the most recent node entry -/

/-- the checkpoint (variables, visit counts, node) changes at node entries only: no statement other than a
successful jump changes what `snapshot` returns … -/
theorem exec_keeps_snapshot (env : Env σ) (mk : Markup π μ) (p : Program) (d : Data σ π) (st : Stmt)
    (hnj : ∀ e, st ≠ .jump e) :
    (exec env mk p d st).1.snapVars = d.snapVars ∧ (exec env mk p d st).1.visited = d.visited ∧
    (exec env mk p d st).1.cur = d.cur := by
  cases st with
  | jump e => exact absurd rfl (hnj e)
  | line l => simp only [exec]; split <;> simp
  | opts os => simp only [exec]; split <;> simp
  | set v op e =>
    simp only [exec]
    split
    · split <;> simp
    · simp
    · simp
  | ifs cs => simp only [exec]; split <;> simp
  | cmd elems =>
    simp only [exec]
    split
    · simp
    · split
      · split
        · simp
        · split <;> simp
      · simp
      · simp
      · simp
  | call f args =>
    simp only [exec]
    split
    · split <;> simp
    · simp
    · simp
  | empty => simp [exec]

/-- … a failing jump does not change it either … -/
theorem failed_jump_keeps_snapshot (env : Env σ) (mk : Markup π μ) (p : Program) (d : Data σ π) (e : Expr) (k : ErrKind)
    (h : (exec env mk p d (.jump e)).2.2 = some (.err k)) :
    (exec env mk p d (.jump e)).1.snapVars = d.snapVars ∧ (exec env mk p d (.jump e)).1.visited = d.visited ∧
    (exec env mk p d (.jump e)).1.cur = d.cur := by
  simp only [exec] at h ⊢
  cases he : eval env d.store d.visited e d.w with
  | mk o w =>
    cases o with
    | ok v =>
      cases v with
      | str t =>
        simp only [he] at h ⊢
        cases hf : p.find t with
        | none => simp
        | some n => simp [hf] at h
      | num x => simp
      | bool b => simp
    | err k' => simp
    | panic q => simp

/-- … and a successful jump — a node entry — captures the variables as they are at that entry together with the node
entered (`snapshot_at_entry`) -/
theorem jump_captures_entry_state (env : Env σ) (mk : Markup π μ) (p : Program) (d : Data σ π) (e : Expr) (t : String)
    (w : W σ) (n : Node) (he : eval env d.store d.visited e d.w = (.ok (.str t), w)) (hf : p.find t = some n) :
    let d' := (exec env mk p d (.jump e)).1
    d'.snapVars = d'.store ∧ d'.cur = n.title ∧ d'.store = d.store := by
  simp [exec, he, hf]

/-- creation is a node entry too: the first checkpoint holds the creation-time variables -/
theorem init_captures_entry_state (p : Program) (store : Store) (w : W σ) (ms : π) (r : R σ π)
    (h : R.init p store w ms = some r) : r.snapshot.vars = store ∧ r.d.store = store ∧ r.snapshot.visited = [] := by
  unfold R.init at h
  cases p with
  | nil => simp at h
  | cons n ns => simp only [Option.some.injEq] at h; subst h; simp [R.snapshot]

/-! ### 2. restoring produces exactly the node-entry state, whatever the receiving runner was doing -/

/-- C07.2 `restore_is_entry_state`: for every runner state whatsoever (fresh, mid-node, waiting for a choice,
command pending, ended) the restored state is the canonical entry state of the snapshot's node: its body to run,
no choice expected, nothing pending, the snapshot's variables, visit counts and node, and the snapshot itself as the
current checkpoint; only the host state, the RNG and the line parser state of the receiving runner survive -/
theorem restore_is_entry_state (p : Program) (r r' : R σ π) (s : Snapshot) (h : r.restore p s = some r') :
    ∃ n, p.find s.node = some n ∧
      r' = { d := { store := s.vars, visited := s.visited, cur := s.node, snapVars := s.vars, pending := none,
                    w := r.d.w, ms := r.d.ms, jumpLog := [] },
             stack := [⟨n.body, 0⟩], waiting := none } := by
  unfold R.restore at h
  cases hf : p.find s.node with
  | none => simp [hf] at h
  | some n =>
    simp only [hf, Option.some.injEq] at h
    subst h
    exact ⟨n, rfl, by rw [find_title hf]⟩

/-- hence two runners of the same script, in any two states, restored from the same snapshot are in the same state
(up to their own host/RNG/parser state) and will continue identically: same elements for every later choice sequence -/
theorem restored_runners_agree (env : Env σ) (mk : Markup π μ) (p : Program) (r₁ r₂ r₁' r₂' : R σ π) (s : Snapshot)
    (h₁ : r₁.restore p s = some r₁') (h₂ : r₂.restore p s = some r₂') (hw : r₁.d.w = r₂.d.w) (hms : r₁.d.ms = r₂.d.ms) :
    r₁' = r₂' ∧ ∀ f c, r₁'.next env mk p f c = r₂'.next env mk p f c := by
  obtain ⟨n₁, hf₁, e₁⟩ := restore_is_entry_state p r₁ r₁' s h₁
  obtain ⟨n₂, hf₂, e₂⟩ := restore_is_entry_state p r₂ r₂' s h₂
  rw [hf₁] at hf₂
  cases hf₂
  have : r₁' = r₂' := by rw [e₁, e₂, hw, hms]
  exact ⟨this, by intro f c; rw [this]⟩

/-- the original run entered the node in exactly that state: after a successful jump the machine has the target's body
to run, no choice expected, and the checkpoint equals the variables — so a restore of the snapshot taken then
reproduces the state the original continued from -/
theorem original_entry_state (env : Env σ) (mk : Markup π μ) (p : Program) (d : Data σ π) (e : Expr) (t : String)
    (w : W σ) (n : Node) (q : SQ) (rest : List SQ) (he : eval env d.store d.visited e d.w = (.ok (.str t), w))
    (hf : p.find t = some n) (hq : q.stmts[q.ptr]? = some (.jump e)) (hp : d.pending = none) (c : Nat) :
    let r' := (({ d := d, stack := q :: rest, waiting := none } : R σ π).micro env mk p c).1
    r'.stack = [⟨n.body, 0⟩] ∧ r'.waiting = none ∧ r'.d.pending = none ∧ r'.d.store = r'.snapshot.vars ∧ r'.d.cur = n.title := by
  have hpoll : poll (μ := μ) d = (d, none) := by simp [poll, hp]
  simp [R.micro, hpoll, hq, exec, he, hf, applyCtlR, isOpts, R.snapshot, hp]

/-! ### 3. an immediately taken snapshot equals the restored one -/

/-- C07.3 `snapshot_restore_id` -/
theorem snapshot_restore_id (p : Program) (r r' : R σ π) (s : Snapshot) (h : r.restore p s = some r') :
    r'.snapshot = s := by
  obtain ⟨n, _, e⟩ := restore_is_entry_state p r r' s h
  rw [e]; rfl

/-! ### 4. restoring a snapshot that names an unknown node fails and changes nothing -/

/-- C07.4 `restore_unknown_fails_unchanged`: there is no new state at all — the caller keeps the old one -/
theorem restore_unknown_fails_unchanged (p : Program) (r : R σ π) (s : Snapshot) (h : p.find s.node = none) :
    r.restore p s = none := by
  simp [R.restore, h]

theorem restore_known_succeeds (p : Program) (r : R σ π) (s : Snapshot) (n : Node) (h : p.find s.node = some n) :
    ∃ r', r.restore p s = some r' := by
  simp [R.restore, h]

/-! ### 5. snapshots are values: nothing the runner does afterwards changes one -/

/-- taking a snapshot does not change the runner, and the snapshot value does not mention the runner:
later steps of the runner are functions of the runner state only (`R.next` does not take the snapshot) -/
theorem snapshot_is_pure (r : R σ π) : r.snapshot = ⟨r.d.snapVars, r.d.visited, r.d.cur⟩ := rfl

/-- non-vacuity: restoring into a runner that is waiting for a choice with a command pending yields a runner that is
neither waiting nor pending -/
example :
    let p : Program := [{ title := "A", body := [.empty] }]
    let r : R Unit Unit := { d := { cur := "A", pending := some none, w := ⟨(), default⟩, ms := () }, stack := [], waiting := some [[]] }
    ∃ r', r.restore p ⟨[("x", .bool true)], [("A", 2)], "A"⟩ = some r' ∧ r'.waiting = none ∧ r'.d.pending = none ∧
      r'.d.store = [("x", .bool true)] := by
  simp [R.restore, Program.find]

end Ysgo.C07
