import Ysgo.Lemmas.FuelNext
/-!
# C01.3 `fuel_suffices` — for `Productive` programs `Next` always returns

`Next` of `runner.go` calls itself after every statement that yields nothing; a script that loops without ever
presenting a line or an option group never returns in Go, and in the model it exhausts every fuel (`NextRes.fuel`).
`Fuel.Productive p` (a `Bool`, `Lemmas/FuelSize.lean`): the body of every node of `p` starts with a line or an option
group. The generators guarantee the special case `Fuel.NodesStartWithLine p`.

* `fuel_suffices`: for a productive program, from **any** runner state `r` (no invariant needed), fuel
  `Fuel.bound r = (nested size of what is left on the stack, +1 per queue) + (size of the bodies a choice is expected for) + 2`
  is enough: the result is never `.fuel`.
* `Fuel.Wf p r` ("the continuation is made of statements of `p`") and the stronger `Fuel.Reach p r` ("the stack is a chain
  of nested bodies hanging from a node body") hold initially (`R.init`, `R.restore`) and are preserved by `micro` and
  `next`; under `Reach` the bound depends on the program only: `Fuel.progBound p = (largest node, nested size + 1) + 2`.
* `next_returns`: `Next` returns an element, the end, `waiting` or an error.
* the hypothesis is necessary: `unproductive_never_returns`.
-/
namespace Ysgo.C01
open Ysgo Ysgo.Fuel
set_option linter.unusedSimpArgs false

variable {σ π μ : Type}

/-- what the generators guarantee implies `Productive` -/
theorem productive_of_nodes_start_with_line (p : Program) (h : NodesStartWithLine p) : Productive p = true :=
  productive_of_nodesStartWithLine h

/-- C01.3 `fuel_suffices`: for a productive program, every host, every markup parser, every runner state (reachable or
not) and every argument, `Next` with fuel ≥ the explicit bound `Fuel.bound r` never runs out of fuel -/
theorem fuel_suffices (env : Env σ) (mk : Markup π μ) (p : Program) (hp : Productive p = true) (r : R σ π) (c : Nat) :
    ∀ f, Fuel.bound r ≤ f → (r.next env mk p f c).2 ≠ .fuel :=
  fun f hf => next_fuel_aux env mk p hp c f r hf

/-- … in the form "there is a bound" -/
theorem fuel_suffices_exists (env : Env σ) (mk : Markup π μ) (p : Program) (hp : Productive p = true) (r : R σ π) (c : Nat) :
    ∃ bound, ∀ f, bound ≤ f → (r.next env mk p f c).2 ≠ .fuel :=
  ⟨Fuel.bound r, fuel_suffices env mk p hp r c⟩

/-- for a state whose continuation is made of statements of `p`, the bodies a choice is expected for are bounded by the
largest node: fuel `(what is left on the stack) + (largest node) + 2` is enough -/
theorem fuel_suffices_wf (env : Env σ) (mk : Markup π μ) (p : Program) (hp : Productive p = true) (r : R σ π) (c : Nat)
    (hw : Wf p r) : ∀ f, stackSize r.stack + maxNode p + 2 ≤ f → (r.next env mk p f c).2 ≠ .fuel := by
  intro f hf
  have := wfW_size hw.waiting
  exact next_fuel_aux env mk p hp c f r (by unfold msr; omega)

/-- for every state reachable from `R.init p` / `R.restore p` the fuel bound depends on the program only:
`progBound p = (largest node, counted with everything nested in it) + 2` -/
theorem fuel_suffices_reachable (env : Env σ) (mk : Markup π μ) (p : Program) (hp : Productive p = true) (r : R σ π)
    (c : Nat) (hr : Reach p r) : ∀ f, progBound p ≤ f → (r.next env mk p f c).2 ≠ .fuel := by
  intro f hf
  have := reach_msr hr
  exact next_fuel_aux env mk p hp c f r (by unfold progBound at hf; omega)

/-! ### the invariants: established by `init` / `restore`, preserved by `micro` and `next` (any program) -/

theorem reach_init (p : Program) (store : Store) (w : W σ) (ms : π) (r : R σ π) (h : R.init p store w ms = some r) :
    Reach p r := init_reach p store w ms r h

theorem reach_restore (p : Program) (r0 r : R σ π) (s : Snapshot) (h : R.restore p r0 s = some r) : Reach p r :=
  restore_reach p r0 r s h

theorem reach_micro (env : Env σ) (mk : Markup π μ) (p : Program) (r : R σ π) (c : Nat) (h : Reach p r) :
    Reach p (r.micro env mk p c).1 := micro_reach env mk p r c h

theorem reach_next (env : Env σ) (mk : Markup π μ) (p : Program) (f : Nat) (r : R σ π) (c : Nat) (h : Reach p r) :
    Reach p (r.next env mk p f c).1 := next_reach env mk p c f r h

/-- the chain invariant implies "the continuation is made of statements of `p`" -/
theorem reach_wf (p : Program) (r : R σ π) (h : Reach p r) : Wf p r := h.wf

theorem wf_init (p : Program) (store : Store) (w : W σ) (ms : π) (r : R σ π) (h : R.init p store w ms = some r) :
    Wf p r := (init_reach p store w ms r h).wf

theorem wf_restore (p : Program) (r0 r : R σ π) (s : Snapshot) (h : R.restore p r0 s = some r) : Wf p r :=
  (restore_reach p r0 r s h).wf

theorem wf_micro (env : Env σ) (mk : Markup π μ) (p : Program) (r : R σ π) (c : Nat) (h : Wf p r) :
    Wf p (r.micro env mk p c).1 := micro_wf env mk p r c h

theorem wf_next (env : Env σ) (mk : Markup π μ) (p : Program) (f : Nat) (r : R σ π) (c : Nat) (h : Wf p r) :
    Wf p (r.next env mk p f c).1 := next_wf env mk p c f r h

/-! ### `Next` returns -/

/-- C01.3 corollary `next_returns`: `Next` returns an element, the end, `waiting` or an error (from any state) -/
theorem next_returns (env : Env σ) (mk : Markup π μ) (p : Program) (hp : Productive p = true) (r : R σ π) (c : Nat) :
    ∃ f r' o, r.next env mk p f c = (r', .out o) := by
  have h := fuel_suffices env mk p hp r c (Fuel.bound r) (Nat.le_refl _)
  cases hn : r.next env mk p (Fuel.bound r) c with
  | mk r' res =>
    rw [hn] at h
    cases res with
    | out o => exact ⟨_, r', o, hn⟩
    | fuel => exact absurd rfl h

/-- … from a reachable state with the fuel `progBound p`, and the state it leaves is reachable again -/
theorem next_returns_reachable (env : Env σ) (mk : Markup π μ) (p : Program) (hp : Productive p = true) (r : R σ π)
    (c : Nat) (hr : Reach p r) : ∃ r' o, r.next env mk p (progBound p) c = (r', .out o) ∧ Reach p r' := by
  have h := fuel_suffices_reachable env mk p hp r c hr (progBound p) (Nat.le_refl _)
  have hr' := reach_next env mk p (progBound p) r c hr
  cases hn : r.next env mk p (progBound p) c with
  | mk r' res =>
    rw [hn] at h hr'
    cases res with
    | out o => exact ⟨r', o, rfl, hr'⟩
    | fuel => exact absurd rfl h

/-- a whole session: from the initial state, whatever the sequence of arguments of the successive calls of `Next`,
no call made with fuel `progBound p` runs out of fuel -/
theorem session_never_out_of_fuel (env : Env σ) (mk : Markup π μ) (p : Program) (hp : Productive p = true)
    (store : Store) (w : W σ) (ms : π) (r : R σ π) (hi : R.init p store w ms = some r) (cs : List Nat) :
    ∀ x, x ∈ session env mk p (progBound p) r cs → x ≠ .fuel :=
  session_no_fuel env mk p hp cs r (init_reach p store w ms r hi)

/-! ### non-vacuity -/

/-- `Fuel.cycleAB`: two nodes in a jump cycle A → B → A, each starting with a line -/
example : Productive cycleAB = true := by decide
example : NodesStartWithLine cycleAB := by
  intro n hn
  simp only [cycleAB, List.mem_cons, List.not_mem_nil, or_false] at hn
  rcases hn with h | h <;> (subst h; exact ⟨_, _, rfl⟩)
example : progBound cycleAB = 5 := rfl

/-- the cycle is really taken: five calls of `Next`, each with fuel `progBound cycleAB = 5`, go twice around it -/
example :
    let env : Env Unit := ⟨fun _ _ h => (.err .callFailed, h), fun _ => false, fun _ _ h => (.unknown, h)⟩
    let mk : Markup Unit String := ⟨fun s t => (s, .ok t)⟩
    let r : R Unit Unit := { d := { cur := "A", w := ⟨(), default⟩, ms := () },
                             stack := [⟨[.line { elems := [.inl "a"] }, .jump (.lit (.str "B"))], 0⟩] }
    R.init cycleAB [] ⟨(), default⟩ () = some r ∧
    (session env mk cycleAB 5 r [0, 0, 0, 0, 0]).map
        (fun x => match x with | .out (.ok (.line n t _)) => n ++ ":" ++ t | .fuel => "FUEL" | _ => "other") =
      ["A:a", "B:b", "A:a", "B:b", "A:a"] := by
  refine ⟨rfl, ?_⟩
  simp [session, R.next, R.micro, poll, exec, eval, applyCtlR, cycleAB, Program.find, renderLine, renderElems, isOpts]

/-- a state with a nested continuation (inside an option body inside a node) satisfying the chain invariant -/
example :
    let inner : List Stmt := [.set "x" .set (.lit (.bool true))]
    let p : Program := [{ title := "A", body := [.line { elems := [] }, .opts [({ elems := [] }, inner)], .line { elems := [] }] }]
    let r : R Unit Unit := { d := { cur := "A", w := ⟨(), default⟩, ms := () },
                             stack := [⟨inner, 0⟩, ⟨[.line { elems := [] }, .opts [({ elems := [] }, inner)], .line { elems := [] }], 2⟩] }
    Reach p r ∧ Fuel.bound r = 6 ∧ progBound p = 8 := by
  refine ⟨⟨?_, ?_⟩, rfl, rfl⟩
  · exact .child _ _ _ (.root ⟨"A", "", _⟩ List.mem_cons_self 2) 1 _ rfl rfl (.opt _ (_, _) List.mem_cons_self rfl)
  · intro b hb; cases hb

/-- `Fuel.loopA`: the only node consists of `<<jump A>>` -/
example : Productive loopA = false := by decide

/-- the hypothesis `Productive` is necessary: on `loopA` every fuel is exhausted, for every host, every markup parser
and every data state without a pending command (in Go: `Next` never returns) -/
theorem unproductive_never_returns (env : Env σ) (mk : Markup π μ) (c : Nat) :
    ∀ (f : Nat) (d : Data σ π), d.pending = none →
      (({ d := d, stack := [⟨[.jump (.lit (.str "A"))], 0⟩] } : R σ π).next env mk loopA f c).2 = .fuel
  | 0, _, _ => rfl
  | f + 1, d, h => by
    unfold R.next
    simp only [R.micro, poll, h, exec, eval, applyCtlR, loopA, Program.find, List.find?, List.getElem?_cons_zero]
    simp
    exact unproductive_never_returns env mk c f _ rfl

/-- … in particular from the initial state with the concrete fuel 5 -/
example :
    let env : Env Unit := ⟨fun _ _ h => (.err .callFailed, h), fun _ => false, fun _ _ h => (.unknown, h)⟩
    let mk : Markup Unit String := ⟨fun s t => (s, .ok t)⟩
    ∃ r : R Unit Unit, R.init loopA [] ⟨(), default⟩ () = some r ∧ (r.next env mk loopA 5 0).2 = .fuel := by
  refine ⟨_, rfl, ?_⟩
  simp [R.next, R.micro, poll, exec, eval, applyCtlR, loopA, Program.find]

end Ysgo.C01

section
open Ysgo.C01
#print axioms fuel_suffices
#print axioms fuel_suffices_exists
#print axioms fuel_suffices_wf
#print axioms fuel_suffices_reachable
#print axioms reach_init
#print axioms reach_restore
#print axioms reach_micro
#print axioms reach_next
#print axioms reach_wf
#print axioms wf_init
#print axioms wf_restore
#print axioms wf_micro
#print axioms wf_next
#print axioms next_returns
#print axioms next_returns_reachable
#print axioms session_never_out_of_fuel
#print axioms unproductive_never_returns
#print axioms productive_of_nodes_start_with_line
end
