import Ysgo.Generated.NumFacts
import Ysgo.Model.Core
import Ysgo.Lemmas.NoPanic
/-!
# C06/C09 — translated facts: the guards of the checked random built-ins, regenerated from the source on every run

`tools/numfacts` translates the leading `if … { return 0, err }` of the function literals returned by
`checkedRandomRange` and `checkedDice` (base_functions.go) into `FE` terms. Interpreted with int64 wrap-around, they are
exactly the conditions under which the model's `random_range` / `dice` answer with a domain error instead of calling
`IntBetween` (whose `Intn` panics on a non-positive span) — for all arguments.
-/
namespace Ysgo.C09Facts
open Ysgo

abbrev src := Generated.guardSrc

/-- the guard of `random_range` as the model has it (Core.lean, `builtin "random_range"`) -/
def modelRangeGuard (lo hi : Int) : Bool :=
  decide (hi < lo ∨ Rng.wrap64 (hi - lo) < 0 ∨ Rng.wrap64 (hi - lo) = maxInt)

/-- the guard of `dice` as the model has it -/
def modelDiceGuard (sides : Int) : Bool := decide (sides < 1)

theorem randomRange_guard_is_model (lo hi : Int) :
    FE.run src "checkedRandomRange" [.i lo, .i hi] = some (FV.b (modelRangeGuard lo hi)) := by
  unfold modelRangeGuard
  by_cases h1 : hi < lo
  · simp [FE.run, FE.step, FE.lookupDef, src, Generated.guardSrc, FE.bindParams, FE.eval, FE.lookupVar, FE.cmpOp, FE.arith,
      FE.constant, h1, List.find?]
  · by_cases h2 : Rng.wrap64 (hi - lo) < 0
    · simp [FE.run, FE.step, FE.lookupDef, src, Generated.guardSrc, FE.bindParams, FE.eval, FE.lookupVar, FE.cmpOp, FE.arith,
        FE.constant, h1, h2, List.find?]
    · simp [FE.run, FE.step, FE.lookupDef, src, Generated.guardSrc, FE.bindParams, FE.eval, FE.lookupVar, FE.cmpOp, FE.arith,
        FE.constant, h1, h2, List.find?, maxInt]

theorem dice_guard_is_model (sides : Int) :
    FE.run src "checkedDice" [.i sides] = some (FV.b (modelDiceGuard sides)) := by
  simp [FE.run, FE.step, FE.lookupDef, src, Generated.guardSrc, FE.bindParams, FE.eval, FE.lookupVar, FE.cmpOp,
    modelDiceGuard, List.find?]

/-- `modelRangeGuard` is the guard of the model's built-in: when it holds the answer is a domain error and the RNG is
not touched; when it does not, `IntBetween` is called with exactly these bounds -/
theorem builtin_random_range_guarded (vis : Map Nat) (a b : F64) (g : Rng.Src) :
    builtin vis "random_range" [.num a, .num b] g =
      if modelRangeGuard a.toInt64 b.toInt64 then (.err .domain, g)
      else (match Rng.intBetween g a.toInt64 b.toInt64 with
        | .val v g => (.ok (some (.num (F64.ofInt v))), g)
        | .panic => (.panic .intn, g)
        | .fuel => (.err .unmodelled, g)) := by
  simp only [builtin, modelRangeGuard]
  split
  · simp_all
  · rename_i h
    have h1 : ¬ (b.toInt64 < a.toInt64) := fun h' => h (Or.inl h')
    have h2 : ¬ (Rng.wrap64 (b.toInt64 - a.toInt64) < 0) := fun h' => h (Or.inr (Or.inl h'))
    have h3 : ¬ (Rng.wrap64 (b.toInt64 - a.toInt64) = maxInt) := fun h' => h (Or.inr (Or.inr h'))
    simp only [h1, h2, h3, or_self, if_false]
    cases Rng.intBetween g a.toInt64 b.toInt64 <;> rfl

theorem builtin_dice_guarded (vis : Map Nat) (x : F64) (g : Rng.Src) :
    builtin vis "dice" [.num x] g =
      if modelDiceGuard x.toInt64 then (.err .domain, g)
      else (match Rng.intBetween g 1 x.toInt64 with
        | .val v g => (.ok (some (.num (F64.ofInt v))), g)
        | .panic => (.panic .intn, g)
        | .fuel => (.err .unmodelled, g)) := by
  simp only [builtin, modelDiceGuard]
  split
  · simp_all
  · rename_i h
    simp only [h, decide_false, if_false]
    cases Rng.intBetween g 1 x.toInt64 <;> rfl

/-- non-vacuity: the guard refuses the span 2^63-1 (where `Intn(span+1)` would panic) and accepts an ordinary range -/
example : modelRangeGuard 0 9223372036854775807 = true ∧ modelRangeGuard (-5) 5 = false ∧
    modelRangeGuard (-9223372036854775808) 9223372036854775807 = true := by decide

end Ysgo.C09Facts

/-! ### internal/rng: `radix`, `toRadix36`, the accumulation of `seedToInt64`, `IntBetween` -/
namespace Ysgo.C09Facts
open Ysgo
set_option linter.unusedSimpArgs false

abbrev rsrc := Generated.rngSrc

theorem radix_is_36 : FE.run rsrc "radix" [] = some (FV.i 36) := by rfl

theorem wrap64_small (z : Int) (h0 : -1000000000 ≤ z) (h1 : z < 1000000000) : Rng.wrap64 z = z :=
  wrap64_id z (by unfold P63; omega) (by unfold P63; omega)

theorem char_lt (c : Char) : c.toNat < 1114112 := by
  have := c.valid
  rcases this with h | ⟨_, h⟩
  · show c.val.toNat < 1114112
    have : c.val.toNat < 55296 := h
    omega
  · exact h

/-- `toRadix36` on every rune: the digit value of the model's `seedStep`, or an error -/
theorem toRadix36_is_model (c : Char) :
    FE.run rsrc "toRadix36" [.i c.toNat] =
      (if '0' ≤ c ∧ c ≤ '9' then some (FV.i ((c.toNat : Int) - 48))
       else if 'a' ≤ c ∧ c ≤ 'z' then some (FV.i ((c.toNat : Int) - 97 + 10))
       else some FV.err) := by
  have hc := char_lt c
  have e0 : ('0' ≤ c) ↔ (48 : Int) ≤ c.toNat := by
    constructor
    · intro h; have : 48 ≤ c.toNat := h; omega
    · intro h; have : 48 ≤ c.toNat := by omega
      exact this
  have e9 : (c ≤ '9') ↔ (c.toNat : Int) ≤ 57 := by
    constructor
    · intro h; have : c.toNat ≤ 57 := h; omega
    · intro h; have : c.toNat ≤ 57 := by omega
      exact this
  have ea : ('a' ≤ c) ↔ (97 : Int) ≤ c.toNat := by
    constructor
    · intro h; have : 97 ≤ c.toNat := h; omega
    · intro h; have : 97 ≤ c.toNat := by omega
      exact this
  have ez : (c ≤ 'z') ↔ (c.toNat : Int) ≤ 122 := by
    constructor
    · intro h; have : c.toNat ≤ 122 := h; omega
    · intro h; have : c.toNat ≤ 122 := by omega
      exact this
  simp only [e0, e9, ea, ez]
  have w1 : Rng.wrap64 ((c.toNat : Int) - 48) = (c.toNat : Int) - 48 := wrap64_small _ (by omega) (by omega)
  have w2 : Rng.wrap64 ((c.toNat : Int) - 97) = (c.toNat : Int) - 97 := wrap64_small _ (by omega) (by omega)
  have w3 : Rng.wrap64 ((c.toNat : Int) - 97 + 10) = (c.toNat : Int) - 97 + 10 := wrap64_small _ (by omega) (by omega)
  have k1 : Rng.wrap64 9 = 9 := by decide
  have k2 : Rng.wrap64 (9 + 1) = 10 := by decide
  by_cases h1 : (48 : Int) ≤ c.toNat
  · by_cases h2 : (c.toNat : Int) ≤ 57
    · simp [FE.run, FE.step, FE.lookupDef, rsrc, Generated.rngSrc, FE.bindParams, FE.eval, FE.lookupVar, FE.cmpOp, FE.arith,
        FE.convert, List.find?, h1, h2, w1]
    · by_cases h4 : (97 : Int) ≤ c.toNat
      · by_cases h5 : (c.toNat : Int) ≤ 122
        · simp [FE.run, FE.step, FE.lookupDef, rsrc, Generated.rngSrc, FE.bindParams, FE.eval, FE.lookupVar, FE.cmpOp, FE.arith,
            FE.convert, List.find?, h1, h2, h4, h5, w2, k1, k2]
          exact w3
        · simp [FE.run, FE.step, FE.lookupDef, rsrc, Generated.rngSrc, FE.bindParams, FE.eval, FE.lookupVar, FE.cmpOp, FE.arith,
            FE.convert, List.find?, h1, h2, h4, h5]
      · simp [FE.run, FE.step, FE.lookupDef, rsrc, Generated.rngSrc, FE.bindParams, FE.eval, FE.lookupVar, FE.cmpOp, FE.arith,
          FE.convert, List.find?, h1, h2, h4]
  · have h2 : ¬ ((97 : Int) ≤ c.toNat) := by omega
    simp [FE.run, FE.step, FE.lookupDef, rsrc, Generated.rngSrc, FE.bindParams, FE.eval, FE.lookupVar, FE.cmpOp, FE.arith,
      FE.convert, List.find?, h1, h2]

/-- `wrap64` absorbs inner wraps of summands and factors (arithmetic modulo 2^64) -/
theorem wrap64_add_left (a b : Int) : Rng.wrap64 (Rng.wrap64 a + b) = Rng.wrap64 (a + b) := by
  unfold Rng.wrap64 P64 P63
  simp only
  split <;> split <;> split <;> omega

theorem wrap64_add_right (a b : Int) : Rng.wrap64 (a + Rng.wrap64 b) = Rng.wrap64 (a + b) := by
  rw [Int.add_comm, wrap64_add_left, Int.add_comm]

/-- the accumulation step of `seedToInt64` is `wrap64 (36·result + v)` -/
theorem seed_step_is_model (r v : Int) :
    FE.run rsrc "seedToInt64.step" [.i r, .i v] = some (FV.i (Rng.wrap64 (36 * r + v))) := by
  have k : Rng.wrap64 (Rng.wrap64 (Rng.wrap64 (Rng.wrap64 (57 - 48) + 122) - 97) + 2) = 36 := by decide
  simp [FE.run, FE.step, FE.lookupDef, rsrc, Generated.rngSrc, FE.bindParams, FE.eval, FE.lookupVar, FE.arith, List.find?]
  have k' : Rng.wrap64 (Rng.wrap64 (Rng.wrap64 (Rng.wrap64 9 + 122) - 97) + 2) = 36 := by decide
  rw [k', wrap64_add_left]

/-- the translated `toRadix36` + step, composed, are the model's `seedStep` -/
theorem seedStep_is_translated (r : Int) (c : Char) :
    Rng.seedStep (some r) c =
      (match FE.run rsrc "toRadix36" [.i c.toNat] with
       | some (.i v) => (match FE.run rsrc "seedToInt64.step" [.i r, .i v] with | some (.i x) => some x | _ => none)
       | _ => none) := by
  rw [toRadix36_is_model]
  unfold Rng.seedStep
  by_cases h1 : '0' ≤ c ∧ c ≤ '9'
  · simp only [h1, and_self, if_true, seed_step_is_model]
  · simp only [h1, if_false]
    by_cases h2 : 'a' ≤ c ∧ c ≤ 'z'
    · simp only [h2, and_self, if_true, seed_step_is_model]
    · simp only [h2, if_false]

/-- `IntBetween` is `lowerBound + Intn(upperBound - lowerBound + 1)` in int64 arithmetic — exactly the composition the
model's `Rng.intBetween` applies to its model of `Intn` -/
theorem intBetween_is_model (user : String → List FV → Option FV) (lo hi v : Int)
    (hu : user "rng.source.Intn" [.i (Rng.wrap64 (hi - lo + 1))] = some (.i v)) :
    FE.eval user [("lowerBound", .i lo), ("upperBound", .i hi)]
        (match FE.lookupDef rsrc "IntBetween" with | some d => d.2 | none => .unsupported "missing") =
      some (FV.i (Rng.wrap64 (lo + v))) := by
  have hdef : (match FE.lookupDef rsrc "IntBetween" with | some d => d.2 | none => FE.unsupported "missing") =
      FE.bin "+" (FE.var "lowerBound")
        (FE.call1 "rng.source.Intn" (FE.bin "+" (FE.bin "-" (FE.var "upperBound") (FE.var "lowerBound")) (FE.lit 1))) := rfl
  rw [hdef]
  have harg : FE.eval user [("lowerBound", FV.i lo), ("upperBound", FV.i hi)]
      (FE.bin "+" (FE.bin "-" (FE.var "upperBound") (FE.var "lowerBound")) (FE.lit 1)) = some (FV.i (Rng.wrap64 (hi - lo + 1))) := by
    simp [FE.eval, FE.lookupVar, FE.arith, List.find?, wrap64_add_left]
  have hlo : FE.eval user [("lowerBound", FV.i lo), ("upperBound", FV.i hi)] (FE.var "lowerBound") = some (FV.i lo) := by
    simp [FE.eval, FE.lookupVar, List.find?]
  have hprim : FE.prim1 "rng.source.Intn" (FV.i (Rng.wrap64 (hi - lo + 1))) = none := rfl
  rw [FE.eval, hlo, FE.eval, harg]
  simp only [hprim, hu, FE.arith]

end Ysgo.C09Facts
