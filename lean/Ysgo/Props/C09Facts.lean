import Ysgo.Generated.NumFacts
import Ysgo.Model.Core
/-!
# C06/C09 — translated facts: the guards of the checked random built-ins, regenerated from the source on every run

`tools/numfacts` translates the leading `if … { return 0, err }` of the function literals returned by
`checkedRandomRange` and `checkedDice` (base_functions.go) into `FE` terms. Interpreted with int64 wrap-around, they are
exactly the conditions under which the model's `random_range` / `dice` answer with a domain error instead of calling
`IntBetween` (whose `Intn` panics on a non-positive span) — for all arguments.
-/
namespace Ysgo.C09Facts
open Ysgo

abbrev src := Generated.guardSrc

/-- the guard of `random_range` as the model has it (Core.lean, `builtin "random_range"`) -/
def modelRangeGuard (lo hi : Int) : Bool :=
  decide (hi < lo ∨ Rng.wrap64 (hi - lo) < 0 ∨ Rng.wrap64 (hi - lo) = maxInt)

/-- the guard of `dice` as the model has it -/
def modelDiceGuard (sides : Int) : Bool := decide (sides < 1)

theorem randomRange_guard_is_model (lo hi : Int) :
    FE.run src "checkedRandomRange" [.i lo, .i hi] = some (FV.b (modelRangeGuard lo hi)) := by
  unfold modelRangeGuard
  by_cases h1 : hi < lo
  · simp [FE.run, FE.step, FE.lookupDef, src, Generated.guardSrc, FE.bindParams, FE.eval, FE.lookupVar, FE.cmpOp, FE.arith,
      FE.constant, h1, List.find?]
  · by_cases h2 : Rng.wrap64 (hi - lo) < 0
    · simp [FE.run, FE.step, FE.lookupDef, src, Generated.guardSrc, FE.bindParams, FE.eval, FE.lookupVar, FE.cmpOp, FE.arith,
        FE.constant, h1, h2, List.find?]
    · simp [FE.run, FE.step, FE.lookupDef, src, Generated.guardSrc, FE.bindParams, FE.eval, FE.lookupVar, FE.cmpOp, FE.arith,
        FE.constant, h1, h2, List.find?, maxInt]

theorem dice_guard_is_model (sides : Int) :
    FE.run src "checkedDice" [.i sides] = some (FV.b (modelDiceGuard sides)) := by
  simp [FE.run, FE.step, FE.lookupDef, src, Generated.guardSrc, FE.bindParams, FE.eval, FE.lookupVar, FE.cmpOp,
    modelDiceGuard, List.find?]

/-- `modelRangeGuard` is the guard of the model's built-in: when it holds the answer is a domain error and the RNG is
not touched; when it does not, `IntBetween` is called with exactly these bounds -/
theorem builtin_random_range_guarded (vis : Map Nat) (a b : F64) (g : Rng.Src) :
    builtin vis "random_range" [.num a, .num b] g =
      if modelRangeGuard a.toInt64 b.toInt64 then (.err .domain, g)
      else (match Rng.intBetween g a.toInt64 b.toInt64 with
        | .val v g => (.ok (some (.num (F64.ofInt v))), g)
        | .panic => (.panic .intn, g)
        | .fuel => (.err .unmodelled, g)) := by
  simp only [builtin, modelRangeGuard]
  split
  · simp_all
  · rename_i h
    have h1 : ¬ (b.toInt64 < a.toInt64) := fun h' => h (Or.inl h')
    have h2 : ¬ (Rng.wrap64 (b.toInt64 - a.toInt64) < 0) := fun h' => h (Or.inr (Or.inl h'))
    have h3 : ¬ (Rng.wrap64 (b.toInt64 - a.toInt64) = maxInt) := fun h' => h (Or.inr (Or.inr h'))
    simp only [h1, h2, h3, or_self, if_false]
    cases Rng.intBetween g a.toInt64 b.toInt64 <;> rfl

theorem builtin_dice_guarded (vis : Map Nat) (x : F64) (g : Rng.Src) :
    builtin vis "dice" [.num x] g =
      if modelDiceGuard x.toInt64 then (.err .domain, g)
      else (match Rng.intBetween g 1 x.toInt64 with
        | .val v g => (.ok (some (.num (F64.ofInt v))), g)
        | .panic => (.panic .intn, g)
        | .fuel => (.err .unmodelled, g)) := by
  simp only [builtin, modelDiceGuard]
  split
  · simp_all
  · rename_i h
    simp only [h, decide_false, if_false]
    cases Rng.intBetween g 1 x.toInt64 <;> rfl

/-- non-vacuity: the guard refuses the span 2^63-1 (where `Intn(span+1)` would panic) and accepts an ordinary range -/
example : modelRangeGuard 0 9223372036854775807 = true ∧ modelRangeGuard (-5) 5 = false ∧
    modelRangeGuard (-9223372036854775808) 9223372036854775807 = true := by decide

end Ysgo.C09Facts
