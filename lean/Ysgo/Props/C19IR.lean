import Ysgo.Generated.ConvIR
/-!
# C19 / C04 — translated facts: `Value.ToString` and the conversion built-ins `string`, `bool`, `number`, regenerated
from the source on every run

`tools/convir` translates (go/ast) `Value.ToString` (variable/value.go) and `toString`, `toBoolean`, `toFloat`
(base_functions.go) into terms of the imperative IR of `Spec/ConvIR.lean` (`Generated/ConvIR.lean`). The interpreter
gives the terms their Go meaning, and the theorems below prove that the code as translated just now computes, for every
argument list, what the hand-written model computes: `display` (about which `Props/C04Display.lean` proves the display
clause) and the cases `"string"`, `"bool"`, `"number"` of `builtin` (about which the C19 contracts are proved). Error
kinds are not compared (the Go code returns an `error`; the model's `ErrKind` is the model's own classification): both
sides are read as ok-with-this-value / error / panic / unmodelled (`Res`).

A semantic change of the source (`"True"` ↦ `"true"`, `len(args) != 1` ↦ `< 1`, `!= 0` ↦ `== 0`, `Itoa` for every
number, another case order) regenerates another term and breaks a theorem; a rewrite that means the same (renamed
locals, `switch` ↦ `if`/`else if`, an extra local, other message texts) does not.

Trusted base of this file: the translator (syntax ↦ IR, `tools/convir/main.go`), the interpreter's reading of Go
(`Spec/ConvIR.lean`), and the primitives, which are *interpreted as* the model's functions: `strconv.Itoa` ↦ `F64.itoa`,
`fmt.Sprint(float64)` ↦ `F64.fmtG`, `strconv.ParseBool` ↦ `Num.parseBool`, `strconv.ParseFloat(_, 64)` ↦
`F64.parseFloat` (with its `unmodelled` domain), `float64(int)` ↦ `F64.ofInt`, and `int(float64)` ↦ `F64.toInt64`: for
NaN and out-of-range arguments Go leaves the result implementation-defined; like `F64.display` the interpreter takes the
amd64 result (`-2^63`), so that such numbers go to `fmt.Sprint` (`C04.display_integral_big`, `display_nonfinite`).
`variable.NewNumber/NewBoolean/NewString` are primitives too (they build the value with that one field). The elements of
`args` are non-nil pointers (a nil element would panic in all three built-ins; the evaluator never passes one).

Case order. `variable.Value` has three exported pointer fields, so a host function can return a value with more than
one of them set. The model's `Value` is a sum; `GoVal.toModel` reads such a struct in the order Number, Boolean, String.
The `…_fields` theorems are stated over arbitrary structs and therefore pin the order of the cases in the source (a
swap of two cases is a semantic change for such values and breaks them); the `…_is_model` theorems are the same facts
over the structs the three constructors make.
-/
namespace Ysgo.C19IR
open Ysgo Ysgo.ConvIR Ysgo.Generated.Conv
set_option linter.unusedSimpArgs false

abbrev src := convSrc

theorem lk_ToString : lookupDef src ".ToString" = some d_m_ToString := rfl
theorem lk_toString : lookupDef src "toString" = some d_toString := rfl
theorem lk_toBoolean : lookupDef src "toBoolean" = some d_toBoolean := rfl
theorem lk_toFloat : lookupDef src "toFloat" = some d_toFloat := rfl

theorem len_ne_one (n : Nat) : ((n : Int) + 1 + 1 = 1) = False := by
  simp only [eq_iff_iff, iff_false]; omega
theorem len_ne_one' (n : Nat) : ((1 : Int) = (n : Int) + 1 + 1) = False := by
  simp only [eq_iff_iff, iff_false]; omega
theorem ofInt_zero : F64.ofInt 0 = F64.zero false := rfl

/-- what a built-in returned, as the evaluator sees it -/
inductive Res where
  | ok (v : Value) | err | panic | unmodelled | stuck

/-- a `(*variable.Value, error)` result -/
def resultOf : ER → Res
  | .ok [.val g, .nil] => (match g.toModel with | some v => .ok v | none => .stuck)
  | .ok [_, .err] => .err
  | .panic => .panic
  | .unmodelled => .unmodelled
  | _ => .stuck

/-- the model's outcome without the error kind -/
def ofOutcome : Outcome (Option Value) → Res
  | .ok (some v) => .ok v
  | .ok none => .stuck
  | .err .unmodelled => .unmodelled
  | .err _ => .err
  | .panic _ => .panic

/-- the argument slice the evaluator passes for these model values -/
def goArgs (args : List Value) : V := .args (args.map GoVal.ofModel)

/-! ### `Value.ToString` -/

/-- at any call depth (the method calls nothing but primitives) -/
theorem valueToString_any (user : String → List V → ER) (g : GoVal) :
    step src user ".ToString" [.val g] = .ok [.s (match g.toModel with | some v => display v | none => "")] := by
  rcases g with ⟨n, b, s⟩
  rcases n with _ | x
  · rcases b with _ | b
    · cases s <;> conv_eval [lk_ToString, d_m_ToString, GoVal.toModel, display]
    · cases b <;> conv_eval [lk_ToString, d_m_ToString, GoVal.toModel, display]
  · by_cases h : F64.eq x (F64.ofInt (F64.toInt64 x)) = true <;>
    conv_eval [lk_ToString, d_m_ToString, GoVal.toModel, display, F64.display, h]

/-- **`Value.ToString` over every struct**: the first non-nil field in the order Number, Boolean, String is displayed as
the model displays it; a struct with no field set prints as the empty string -/
theorem valueToString_fields (g : GoVal) :
    run src ".ToString" [.val g] = .ok [.s (match g.toModel with | some v => display v | none => "")] :=
  valueToString_any _ g

/-- **`Value.ToString` is the model's `display`** -/
theorem valueToString_is_model (v : Value) : run src ".ToString" [.val (GoVal.ofModel v)] = .ok [.s (display v)] := by
  rw [valueToString_fields]; cases v <;> rfl

/-! ### `toString` (the built-in `string`) -/

theorem toString_any (user : String → List V → ER) (vis : Map Nat) (args : List Value) (g : Rng.Src) :
    resultOf (step src (step src user) "toString" [goArgs args]) = ofOutcome (builtin vis "string" args g).1 := by
  match args with
  | [] => conv_eval [lk_toString, d_toString, goArgs, builtin, resultOf, ofOutcome]
  | [v] =>
    cases v <;>
    conv_eval [lk_toString, d_toString, goArgs, builtin, resultOf, ofOutcome, GoVal.ofModel, ↓valueToString_any, GoVal.toModel]
  | _ :: _ :: _ => conv_eval [lk_toString, d_toString, goArgs, builtin, resultOf, ofOutcome, len_ne_one, len_ne_one']

/-- **`toString` is the case `"string"` of `builtin`**, for every argument list -/
theorem toString_is_model (vis : Map Nat) (args : List Value) (g : Rng.Src) :
    resultOf (run src "toString" [goArgs args]) = ofOutcome (builtin vis "string" args g).1 :=
  toString_any _ vis args g

/-- over every struct: the value is displayed by field order; a struct with no field set is refused -/
theorem toString_fields (vis : Map Nat) (a : GoVal) (g : Rng.Src) :
    resultOf (run src "toString" [.args [a]]) =
      (match a.toModel with | some v => ofOutcome (builtin vis "string" [v] g).1 | none => .err) := by
  show resultOf (step src (step src _) "toString" [.args [a]]) = _
  rcases a with ⟨n, b, s⟩
  cases n <;> cases b <;> cases s <;>
  conv_eval [lk_toString, d_toString, builtin, resultOf, ofOutcome, ↓valueToString_any, GoVal.toModel]

/-! ### `toBoolean` (the built-in `bool`) -/

theorem toBoolean_any (user : String → List V → ER) (vis : Map Nat) (args : List Value) (g : Rng.Src) :
    resultOf (step src user "toBoolean" [goArgs args]) = ofOutcome (builtin vis "bool" args g).1 := by
  match args with
  | [] => conv_eval [lk_toBoolean, d_toBoolean, goArgs, builtin, resultOf, ofOutcome]
  | [.num x] =>
    conv_eval [lk_toBoolean, d_toBoolean, goArgs, builtin, resultOf, ofOutcome, GoVal.ofModel, GoVal.toModel, ofInt_zero, F64.ne]
  | [.bool b] =>
    conv_eval [lk_toBoolean, d_toBoolean, goArgs, builtin, resultOf, ofOutcome, GoVal.ofModel, GoVal.toModel]
  | [.str s] =>
    cases h : Num.parseBool s <;>
    conv_eval [lk_toBoolean, d_toBoolean, goArgs, builtin, resultOf, ofOutcome, GoVal.ofModel, GoVal.toModel, h]
  | _ :: _ :: _ => conv_eval [lk_toBoolean, d_toBoolean, goArgs, builtin, resultOf, ofOutcome, len_ne_one, len_ne_one']

/-- **`toBoolean` is the case `"bool"` of `builtin`**, for every argument list -/
theorem toBoolean_is_model (vis : Map Nat) (args : List Value) (g : Rng.Src) :
    resultOf (run src "toBoolean" [goArgs args]) = ofOutcome (builtin vis "bool" args g).1 :=
  toBoolean_any _ vis args g

theorem toBoolean_fields (vis : Map Nat) (a : GoVal) (g : Rng.Src) :
    resultOf (run src "toBoolean" [.args [a]]) =
      (match a.toModel with | some v => ofOutcome (builtin vis "bool" [v] g).1 | none => .err) := by
  show resultOf (step src _ "toBoolean" [.args [a]]) = _
  rcases a with ⟨n, b, s⟩
  rcases n with _ | x
  · rcases b with _ | b
    · rcases s with _ | s
      · conv_eval [lk_toBoolean, d_toBoolean, builtin, resultOf, ofOutcome, GoVal.toModel]
      · cases h : Num.parseBool s <;>
        conv_eval [lk_toBoolean, d_toBoolean, builtin, resultOf, ofOutcome, GoVal.toModel, h]
    · cases s <;> conv_eval [lk_toBoolean, d_toBoolean, builtin, resultOf, ofOutcome, GoVal.toModel]
  · cases b <;> cases s <;>
    conv_eval [lk_toBoolean, d_toBoolean, builtin, resultOf, ofOutcome, GoVal.toModel, ofInt_zero, F64.ne]

/-! ### `toFloat` (the built-in `number`) -/

theorem toFloat_any (user : String → List V → ER) (vis : Map Nat) (args : List Value) (g : Rng.Src) :
    resultOf (step src user "toFloat" [goArgs args]) = ofOutcome (builtin vis "number" args g).1 := by
  match args with
  | [] => conv_eval [lk_toFloat, d_toFloat, goArgs, builtin, resultOf, ofOutcome]
  | [.num x] =>
    conv_eval [lk_toFloat, d_toFloat, goArgs, builtin, resultOf, ofOutcome, GoVal.ofModel, GoVal.toModel]
  | [.bool b] =>
    cases b <;>
    conv_eval [lk_toFloat, d_toFloat, goArgs, builtin, resultOf, ofOutcome, GoVal.ofModel, GoVal.toModel, ofInt_zero]
  | [.str s] =>
    cases h : F64.parseFloat s <;>
    conv_eval [lk_toFloat, d_toFloat, goArgs, builtin, resultOf, ofOutcome, GoVal.ofModel, GoVal.toModel, h]
  | _ :: _ :: _ => conv_eval [lk_toFloat, d_toFloat, goArgs, builtin, resultOf, ofOutcome, len_ne_one, len_ne_one']

/-- **`toFloat` is the case `"number"` of `builtin`**, for every argument list (strings outside the modelled domain of
`strconv.ParseFloat` are `unmodelled` on both sides) -/
theorem toFloat_is_model (vis : Map Nat) (args : List Value) (g : Rng.Src) :
    resultOf (run src "toFloat" [goArgs args]) = ofOutcome (builtin vis "number" args g).1 :=
  toFloat_any _ vis args g

theorem toFloat_fields (vis : Map Nat) (a : GoVal) (g : Rng.Src) :
    resultOf (run src "toFloat" [.args [a]]) =
      (match a.toModel with | some v => ofOutcome (builtin vis "number" [v] g).1 | none => .err) := by
  show resultOf (step src _ "toFloat" [.args [a]]) = _
  rcases a with ⟨n, b, s⟩
  rcases n with _ | x
  · rcases b with _ | b
    · rcases s with _ | s
      · conv_eval [lk_toFloat, d_toFloat, builtin, resultOf, ofOutcome, GoVal.toModel]
      · cases h : F64.parseFloat s <;>
        conv_eval [lk_toFloat, d_toFloat, builtin, resultOf, ofOutcome, GoVal.toModel, h]
    · cases b <;> cases s <;>
      conv_eval [lk_toFloat, d_toFloat, builtin, resultOf, ofOutcome, GoVal.toModel, ofInt_zero]
  · cases b <;> cases s <;>
    conv_eval [lk_toFloat, d_toFloat, builtin, resultOf, ofOutcome, GoVal.toModel]

/-! ### non-vacuity -/

/-- the translated code runs: concrete results -/
example : run src ".ToString" [.val ⟨none, some true, none⟩] = .ok [.s "True"] := valueToString_fields _
example : run src ".ToString" [.val ⟨none, none, some "x"⟩] = .ok [.s "x"] := valueToString_fields _
example : run src ".ToString" [.val ⟨none, some false, some "x"⟩] = .ok [.s "False"] := valueToString_fields _
example : run src ".ToString" [.val ⟨none, none, none⟩] = .ok [.s ""] := valueToString_fields _
example : ∃ t, run src ".ToString" [.val ⟨some (F64.ofInt 3), none, none⟩] = .ok [.s t] ∧ t = "3" :=
  ⟨_, valueToString_fields _, by decide +kernel⟩
example (vis : Map Nat) (g : Rng.Src) :
    resultOf (run src "toBoolean" [goArgs [.str "T"]]) = .ok (.bool true) ∧
    resultOf (run src "toBoolean" [goArgs [.str "yes"]]) = .err ∧
    resultOf (run src "toBoolean" [goArgs []]) = .err ∧
    resultOf (run src "toFloat" [goArgs [.bool true]]) = .ok (.num (F64.ofInt 1)) ∧
    resultOf (run src "toFloat" [goArgs [.str "0x1p4"]]) = .unmodelled := by
  refine ⟨?_, ?_, ?_, ?_, ?_⟩
  · rw [toBoolean_is_model vis _ g]; rfl
  · rw [toBoolean_is_model vis _ g]; rfl
  · rw [toBoolean_is_model vis _ g]; rfl
  · rw [toFloat_is_model vis _ g]; rfl
  · rw [toFloat_is_model vis _ g]; rfl

/-- the interpreter is not trivially agreeable: what the translator does not understand has no value; a body with
`"true"` for `"True"` returns another string; `len(args) < 1` for `!= 1` goes on with two arguments -/
example (user : String → List V → ER) : execS user (.ret1 (.unsupported "x")) [] = .stuck := rfl
example : step [{ name := "f", nparams := 1, body := (.seq (.ite (.deref (.field (.var 0) "Boolean")) (.ret1 (.litS "true")) .skip)
      (.ret1 (.litS "False"))) }] (fun _ _ => .stuck) "f" [.val ⟨none, some true, none⟩] = .ok [.s "true"] := rfl
example : execS (fun _ _ => .stuck) (.ite (.bin "<" (.len (.var 0)) (.litI 1)) (.ret2 .nil .mkErr) .skip)
      [(0, .args [⟨none, none, none⟩, ⟨none, none, none⟩])] = .next [(0, .args [⟨none, none, none⟩, ⟨none, none, none⟩])] := rfl

end Ysgo.C19IR
