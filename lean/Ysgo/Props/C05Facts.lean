import Ysgo.Generated.StateFacts
/-!
# C05 — translated fact: syntax errors are collected from the first character on, and nothing is built from a parse that had one

The load model (`Model/Load.lean`, `load_decision`) takes from the code that `FromReader` reports an error exactly when the
lexer or the parser reported a syntax error, and that the tree builder — proved correct on error-free parses
(`listener_builds_structural_ast`) — is only run on those. Both are facts about the *order* of `FromReader`
(internal/tree/creator.go), extracted on every run (`tools/statefacts`: the calls on the lexer, the token stream and the
parser, the early return on collected errors, the walk, in source order) and decided here:

* the collecting error listener is attached to the lexer and to the parser before either (or the token stream between
  them) is used for anything, and is not removed again;
* every use of lexer, stream and parser happens before the `return` on collected errors, which comes before the walk.

Order-based, not text-based: extra steps that respect the order (say `stream.Fill()` after the listeners are attached) stay
green; lexing before the listener is attached (seeded change C05-r3b) does not.
-/
namespace Ysgo.C05Facts
open Ysgo Generated

def setup : List String :=
  ["lexer.RemoveErrorListeners", "lexer.AddErrorListener(errors)", "parser.RemoveErrorListeners", "parser.AddErrorListener(errors)"]

/-- the leading steps that only arrange listeners -/
def arranged : List String := loadSteps.takeWhile (fun s => setup.contains s)
/-- everything from the first real use on -/
def rest : List String := loadSteps.drop arranged.length

def before (l : List String) (a b : String) : Bool :=
  match l.findIdx? (· == a), l.findIdx? (· == b) with
  | some i, some j => decide (i < j)
  | _, _ => false

theorem errors_collected_from_the_first_character_on :
    arranged.contains "lexer.AddErrorListener(errors)" = true ∧ arranged.contains "parser.AddErrorListener(errors)" = true ∧
    -- our listener is not removed again: a Remove, where there is one, comes before the Add
    (!loadSteps.contains "lexer.RemoveErrorListeners" || before loadSteps "lexer.RemoveErrorListeners" "lexer.AddErrorListener(errors)") = true ∧
    (!loadSteps.contains "parser.RemoveErrorListeners" || before loadSteps "parser.RemoveErrorListeners" "parser.AddErrorListener(errors)") = true ∧
    (loadSteps.filter (· == "lexer.RemoveErrorListeners")).length ≤ 1 ∧ (loadSteps.filter (· == "parser.RemoveErrorListeners")).length ≤ 1 ∧
    -- and nothing rearranges listeners once lexing may have started
    rest.all (fun s => !setup.contains s) = true := by decide

theorem nothing_is_built_from_a_parse_with_errors :
    rest.contains "parser.Dialogue" = true ∧
    before rest "parser.Dialogue" "return-if-errors" = true ∧ before rest "return-if-errors" "walk" = true ∧
    (rest.filter (· == "walk")).length = 1 ∧ (rest.filter (· == "return-if-errors")).length = 1 ∧
    -- every use of lexer, stream or parser comes before the check
    ((rest.dropWhile (· != "return-if-errors")).all (fun s => s == "return-if-errors" || s == "walk")) = true := by decide

end Ysgo.C05Facts
