import Ysgo.Lemmas.Queue
import Ysgo.Lemmas.Stack
import Ysgo.Lemmas.Indent
import Ysgo.Lemmas.IndentLit
/-!
# C20 — Internal queue/stack are exact FIFO/LIFO; indentation tokens are balanced

Models: `Ysgo.Queue` (mirror of `internal/container/queue.go`), `Ysgo.Stack` (`stack.go`), `Ysgo.Indent`
(`internal/parser/indent_aware_lexer.go`). Specs: `Ysgo.Fifo`, `Ysgo.Lifo` (plain lists).
-/
namespace Ysgo.C20
open Ysgo.Container

/-! ## C20.1 queue -/

section queue
open Ysgo.Queue
variable {α : Type} [Inhabited α]

/-- **C20.1** From every state satisfying the invariant `Shape` (the zero value, a drained buffer, or a live ring of
capacity ≥ 2 with `0 ≤ first < cap`, `next < cap` — in particular full and wrapped ones), every operation sequence
yields exactly the results and sizes the list model yields from the abstraction `abs q` (the elements from `first`
around the ring). The statement is about all states, so it covers any number of growths and wrap-arounds. -/
theorem queue_refines_fifo_from (q : Queue α) (h : Shape q) (ops : List (Op α)) :
    Queue.run q ops = Fifo.run (abs q) ops :=
  run_sim ops q h

/-- **C20.1** for the queue as created (`Queue[T]{}`): every operation sequence over
enqueue / dequeue / peek / size returns what the list returns, and reports the list's length after every operation;
dequeue and peek panic exactly where the list is empty (the list model's `panic` outcome). -/
theorem queue_refines_fifo (ops : List (Op α)) :
    Queue.run (Queue.empty : Queue α) ops = Fifo.run [] ops := by
  have := queue_refines_fifo_from (Queue.empty : Queue α) empty_shape ops
  rwa [abs_empty] at this

/-- the single steps, for every reachable state: the invariant is preserved, … -/
theorem queue_invariant_preserved (q : Queue α) (h : Shape q) (op : Op α) : Shape (step q op).2 :=
  (step_sim q h op).2.2

/-- … enqueue appends, … -/
theorem queue_enqueue (q : Queue α) (h : Shape q) (x : α) : abs (enqueue q x) = abs q ++ [x] :=
  (enqueue_abs q x h).1

/-- … dequeue returns the head and leaves the tail, … -/
theorem queue_dequeue (q q' : Queue α) (h : Shape q) (r : α) (hd : dequeue q = .ok (r, q')) :
    abs q = r :: abs q' := by
  have := dequeue_abs q h
  rw [hd] at this
  exact this.1

/-- … peek returns the head, … -/
theorem queue_peek (q : Queue α) (h : Shape q) (r : α) (hp : peek q = .ok r) : (abs q).head? = some r := by
  have := peek_abs q h
  rw [hp] at this
  obtain ⟨t, ht⟩ := this
  simp [ht]

omit [Inhabited α] in
/-- … size is the number of elements, … -/
theorem queue_size (q : Queue α) (h : Shape q) : size q = (abs q).length := size_eq q h

/-- … and dequeue / peek panic iff the queue is empty. -/
theorem queue_dequeue_panics_iff_empty (q : Queue α) (h : Shape q) : dequeue q = .panic ↔ abs q = [] := by
  have := dequeue_abs q h
  cases hd : dequeue q with
  | panic => rw [hd] at this; simpa using this
  | ok p => rw [hd] at this; obtain ⟨r, q'⟩ := p; simp [this.1]

theorem queue_peek_panics_iff_empty (q : Queue α) (h : Shape q) : peek q = .panic ↔ abs q = [] := by
  have := peek_abs q h
  cases hp : peek q with
  | panic => rw [hp] at this; simpa using this
  | ok r => rw [hp] at this; obtain ⟨t, ht⟩ := this; simp [ht]

end queue

/-! non-vacuity: a full, wrapped buffer satisfies the invariant; and a concrete run that grows twice, both times
from a wrapped buffer (capacities 8 → 16 → 32), ends drained and panics on the extra dequeue -/
example : Queue.Shape (⟨[6, 7, 8, 1, 2, 3, 4, 5], 3, 3⟩ : Queue.Queue Int) :=
  .live 3 (by decide) rfl (by decide) (by decide)
example : Queue.abs (⟨[6, 7, 8, 1, 2, 3, 4, 5], 3, 3⟩ : Queue.Queue Int) = [1, 2, 3, 4, 5, 6, 7, 8] := by decide

def exQueueOps : List (Queue.Op Int) :=
  (List.range 8).map (fun i => .enq i) ++ List.replicate 3 .deq ++ (List.range 4).map (fun i => .enq (10 + i))
    ++ List.replicate 4 .deq ++ (List.range 12).map (fun i => .enq (20 + i)) ++ [.peek, .size]
    ++ List.replicate 17 .deq ++ [.deq, .peek, .size, .enq 99, .deq]

/-- the raw states of the run: growth happens at `first = 3` (8 → 16) and at `first = 4` (16 → 32) -/
example : ((Queue.runStates Queue.empty exQueueOps).map fun r => (Queue.cap r.2, r.2.first)).eraseDups
    = [(8, 0), (8, 1), (8, 2), (8, 3), (16, 0), (16, 1), (16, 2), (16, 3), (16, 4), (32, 0), (32, 1), (32, 2),
       (32, 3), (32, 4), (32, 5), (32, 6), (32, 7), (32, 8), (32, 9), (32, 10), (32, 11), (32, 12), (32, 13),
       (32, 14), (32, 15), (32, 16), (32, -1)] := by decide
-- … and the observations: FIFO order across both growths, exact sizes, panics on the drained queue, re-use
set_option maxRecDepth 8192 in
example : ((Queue.run Queue.empty exQueueOps).drop 31).map (·.1) =
    [.val 7, .size 17, .val 7, .val 10, .val 11, .val 12, .val 13, .val 20, .val 21, .val 22, .val 23, .val 24,
     .val 25, .val 26, .val 27, .val 28, .val 29, .val 30, .val 31, .panic, .panic, .size 0, .done, .val 99] := by
  rfl
set_option maxRecDepth 8192 in
example : ((Queue.run Queue.empty exQueueOps).drop 31).map (·.2) =
    [17, 17, 16, 15, 14, 13, 12, 11, 10, 9, 8, 7, 6, 5, 4, 3, 2, 1, 0, 0, 0, 0, 1, 0] := by rfl

/-! ## C20.2 stack -/

section stack
open Ysgo.Stack
variable {α : Type} [Inhabited α]

/-- **C20.2** From every state, every operation sequence over push / pushAll / pop / peek / size / clear yields
exactly the results and sizes of the list model started at the reversed slice (newest first). -/
theorem stack_refines_lifo_from (s : Stack α) (ops : List (Op α)) :
    Stack.run s ops = Lifo.run s.reverse ops :=
  run_sim ops s

/-- **C20.2** for the stack as created: pop and peek return the most recently pushed element not yet popped
(`pushAll xs` pushes the elements of `xs` in order), sizes are exact, clear empties, pop and peek panic exactly on
the empty stack. -/
theorem stack_refines_lifo (ops : List (Op α)) :
    Stack.run (Stack.empty : Stack α) ops = Lifo.run [] ops :=
  stack_refines_lifo_from Stack.empty ops

theorem stack_pop_panics_iff_empty (s : Stack α) : pop s = .panic ↔ s = [] := by
  have := pop_abs s
  cases hp : pop s with
  | panic => rw [hp] at this; simpa [Stack.abs] using this
  | ok p =>
    rw [hp] at this
    obtain ⟨r, s'⟩ := p
    simp only [reduceCtorEq, false_iff]
    intro e; subst e; simp [Stack.abs] at this

theorem stack_peek_panics_iff_empty (s : Stack α) : peek s = .panic ↔ s = [] := by
  have := peek_abs s
  cases hp : peek s with
  | panic => rw [hp] at this; simpa [Stack.abs] using this
  | ok r =>
    rw [hp] at this
    obtain ⟨t, ht⟩ := this
    simp only [reduceCtorEq, false_iff]
    intro e; subst e; simp [Stack.abs] at ht

end stack

example : Stack.run (Stack.empty : Stack.Stack Int)
      [.push 1, .pushAll [2, 3, 4], .pop, .peek, .size, .clear, .pop, .pushAll [], .push 5, .peek]
    = [(.done, 1), (.done, 4), (.val 4, 3), (.val 3, 3), (.size 3, 3), (.done, 0), (.panic, 0), (.done, 0),
       (.done, 1), (.val 5, 1)] := by decide

/-! ## C20.3 token balance -/

section balance
open Ysgo.Indent

/-- **C20.3** For every sequence of NEWLINE tokens (any widths, any noise flags, mixed tabs and spaces or not) the
token sequence of the indentation logic ends with exactly one EOF, no prefix of it contains more DEDENT than INDENT,
and it contains as many DEDENT as INDENT. -/
theorem indent_balanced (ls : List LineInfo) :
    (∃ body, lex ls = body ++ [.eof] ∧ .eof ∉ body) ∧
    (∀ p, p <+: lex ls → p.count .dedent ≤ p.count .indent) ∧
    (lex ls).count .dedent = (lex ls).count .indent := by
  have := balancedAux_spec (lex ls) 0 (balancedAux_lexFrom ls [])
  simpa using this

/-- the same from any point of the run: the surplus of DEDENT over INDENT still to come is the depth of the stack
(the invariant: #INDENT − #DEDENT emitted so far = depth of the indent stack; EOF pops everything) -/
theorem indent_balanced_from (st : List Nat) (ls : List LineInfo) :
    (∃ body, lexFrom st ls = body ++ [.eof] ∧ .eof ∉ body) ∧
    (∀ p, p <+: lexFrom st ls → p.count .dedent ≤ p.count .indent + st.length) ∧
    (lexFrom st ls).count .dedent = (lexFrom st ls).count .indent + st.length :=
  balancedAux_spec (lexFrom st ls) st.length (balancedAux_lexFrom ls st)

/-- the executable check the correspondence stream applies to the implementation's token stream accepts the
model's token sequence, for every input -/
theorem indent_balanced_exec (ls : List LineInfo) : balanced (lex ls) = true :=
  balancedAux_lexFrom ls []

/-- mixed tabs and spaces: an error is reported (`lexErrors`) and that is all — the token sequence is the one
computed from the width, the stream still ends with its EOF and stays balanced -/
theorem mixed_indent_only_reports (ls : List LineInfo) :
    lex (ls.map fun l => { l with mixed := false }) = lex ls := by
  unfold lex
  generalize ([] : List Nat) = st
  induction ls generalizing st with
  | nil => rfl
  | cons l ls ih => simp only [List.map_cons, lexFrom, handleNewline, ih]

/-- the two containers together: replayed call by call over the `Stack` model (`Size`, `Peek`, `Push`, `Pop` with
their panic outcome; loop fuel `Size()+1`), `handleNewLineToken` and `handleEndOfFileToken` never pop or peek an
empty stack, from any stack and for any NEWLINE token, and compute what `handleNewline` / `handleEOF` compute -/
theorem indent_stack_ops_never_panic (st : List Nat) (li : LineInfo) :
    handleNewlineLit (st.reverse : Stack.Stack Nat) li
      = .ok ((handleNewline st li).1.reverse, (handleNewline st li).2) ∧
    handleEOFLit (st.length + 1) (st.reverse : Stack.Stack Nat) = .ok (handleEOF st) :=
  ⟨handleNewlineLit_eq st li, handleEOFLit_eq st _ (Nat.le_refl _)⟩

end balance

/-- non-vacuity: ragged widths, a dedent to a level that was never opened (3), noise lines, mixed indentation -/
example : Indent.lex [⟨0, false, false⟩, ⟨4, false, false⟩, ⟨9, true, false⟩, ⟨0, false, true⟩, ⟨3, false, false⟩,
      ⟨3, false, false⟩, ⟨20, false, true⟩, ⟨8, false, false⟩]
    = [.nl, .nl, .indent, .nl, .indent, .nl, .nl, .dedent, .dedent, .nl, .indent, .nl, .nl, .indent, .dedent, .dedent, .eof] := by
  decide

end Ysgo.C20
