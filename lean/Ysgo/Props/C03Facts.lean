import Ysgo.Generated.StateFacts
/-!
# C03 — translated facts: what the in-memory storer's methods do to its three maps

`Model/Storer.lean` (`Storer3`) mirrors `variable/in_memory_storer.go`: three maps, one per type; a setter removes the name
from the two other maps and binds it in its own; `Clear` empties all three (`storer_single_type`: no name is ever bound in
two maps). That the code does exactly that is extracted on every run (`tools/statefacts`: per method, the `delete`s,
index assignments and map resets in source order) and decided here. Order-insensitive: the two deletes may be swapped.
-/
namespace Ysgo.C03Facts
open Ysgo Generated

def ops (m : String) : List (String × String) := ((storerOps.find? (·.1 == m)).map (·.2)).getD []

/-- the map of a given Go type: maps are recognised by what they hold, not by what they are called -/
def mapOfType (t : String) : String := ((storerMapTypes.find? (·.2 == t)).map (·.1)).getD ""

def own : String → String
  | "SetNumberValue" => mapOfType "map[string]float64"
  | "SetBooleanValue" => mapOfType "map[string]bool"
  | "SetStringValue" => mapOfType "map[string]string"
  | _ => ""

def setters : List String := ["SetNumberValue", "SetBooleanValue", "SetStringValue"]

/-- a setter binds the name in its own map only, and removes it from each of the other maps (and from no map it binds) -/
theorem setters_keep_one_type :
    setters.all (fun m =>
      ((ops m).filter (·.1 == "set")).map (·.2) == [own m] &&
      (storerMaps.filter (· != own m)).all (fun f => (ops m).contains ("delete", f)) &&
      !(ops m).contains ("delete", own m) &&
      (ops m).all (fun o => o.1 == "set" || o.1 == "delete")) = true := by decide

theorem clear_resets_every_map :
    storerMaps.all (fun f => (ops "Clear").contains ("reset", f) || (ops "Clear").contains ("clear", f)) = true ∧
    storerMaps.length = 3 ∧ setters.all (fun m => own m != "") = true := by decide

/-- no other method changes the maps -/
theorem only_setters_and_clear_mutate : (storerOps.map (·.1)).all (fun m => setters.contains m || m == "Clear") = true := by decide

end Ysgo.C03Facts
