import Ysgo.Lemmas.ListenerNodeWalk
/-!
# C01, theorem 5: `listener_builds_structural_ast`

The AST builder of `internal/tree/parser_listener.go` — an ANTLR listener whose handlers talk to each other through
stacks of closures — modelled event by event in `Model/Listener.lean` (`build`), against the structural translation of
`Spec/Translate.lean` (`translate`, a plain recursion over the parse tree).

`Conforms t`: `t` is the parse tree of a well-formed term of the typed syntax `CDialogue` (`Lemmas/ListenerSyn*.lean`),
i.e. an instance of YarnSpinnerParser.g4 in which
* every context has exactly the children of one of its productions (operator tokens restricted to those the production
  admits; `command_statement` without trailing hashtags — see `command_hashtag_panics` below), and
* the token texts the listener slices have the shape their lexer rules give them: NUMBER is `INT` or `INT.INT`, VAR_ID
  and HASHTAG start with a one-byte character (`$`, `#`), HASHTAG is one character, STRING starts and ends with a one-byte
  character (`"`), TEXT and COMMAND_TEXT are not empty.
The texts of all other tokens are arbitrary.

Claim: proof over the model. That every error-free parse of the real parser yields a conforming tree is the sampled part
(stream `listener`: the model is run on the dumped tree of every generated script and agrees with `DumpDialogue`; the
driver also reports whether `translate` is defined on the tree).
-/
namespace Ysgo.Listener
open Ysgo

/-- the tree shape the grammar guarantees for an error-free parse -/
def Conforms (t : PT) : Prop := ∃ d : CDialogue, d.WF ∧ t = d.toPT

/-- **C01.5** On every grammar-conforming parse tree the listener model returns normally — no Pop/Peek on an empty
stack, no nil callback, no nil register, no slice out of range, no unknown operator token, nothing outside the modelled
domain — and the dialogue it returns is the structural translation of the tree. -/
theorem listener_builds_structural_ast (t : PT) (h : Conforms t) :
    ∃ d : Dialogue, build t = .ok d ∧ Translate.translate t = some d := by
  obtain ⟨c, hwf, rfl⟩ := h
  exact ⟨c.tr, CDialogue.build_eq c hwf, CDialogue.translate c hwf⟩

def Outcome.toOption {α} : Outcome α → Option α
  | .ok a => some a
  | _ => none

/-- the same with the translation as the function it is -/
theorem listener_builds_translation (t : PT) (h : Conforms t) :
    (build t).toOption = Translate.translate t ∧ (Translate.translate t).isSome := by
  obtain ⟨d, h1, h2⟩ := listener_builds_structural_ast t h
  simp [h1, h2, Outcome.toOption]

def Outcome.isPanic {α} : Outcome α → Bool
  | .panic => true
  | _ => false

theorem listener_never_panics (t : PT) (h : Conforms t) : (build t).isPanic = false := by
  obtain ⟨d, h1, _⟩ := listener_builds_structural_ast t h
  simp [h1, Outcome.isPanic]

/-! ## the sub-languages, each from ANY admissible state of the listener (not only inside a conforming dialogue) -/

/-- **(a) expressions** — all nine alternatives of `expression`, all seven of `value`, function calls with any number
of arguments, nested to any depth. From every live state whose variable slot is empty and whose identities are below the
allocation counter, walking the expression equals ONE call of the expression callback on top of the stack with the
complete expression `e.pE σ.next` (whose erasure is the structural translation: `CExpr.reify_pE`), whatever that callback
is and does — including that both sides panic together when it panics. -/
theorem listener_expression (e : CExpr) (h : e.WF) (σ : State) (ha : σ.alive = true) (hv : σ.variableCallback = none)
    (hb : Bounded σ σ.next) :
    walk e.toPT σ = (deliverE (e.pE σ.next) σ).map
      (·.ghost (σ.next + e.cnt) (clearIf e.hasCall σ.functionCallCallback)) ∧
    (e.pE σ.next).reify = some e.tr ∧ Translate.expr e.toPT = some e.tr :=
  ⟨CExpr.spec e h σ ha hv hb, CExpr.reify_pE e _, CExpr.translate e h⟩

/-- **(b) line statements** with text, inline expressions, condition and tags -/
theorem listener_line (l : CLine) (h : l.WF) (σ : State) (hi : Idle σ) (hb : Bounded σ σ.next) :
    walk l.toPT σ = (deliverL (some (l.pL σ.next)) σ).map (·.ghost (σ.next + l.cnt) none) ∧
    (l.pL σ.next).reify = some l.tr ∧ Translate.lineStatement l.toPT = some l.tr :=
  ⟨CLine.walk_eq l h σ hi hb, CLine.reify_pL l h _, CLine.translate l h⟩

/-- **(c), (d) statement lists**: option groups, if chains, flattened blocks, set / declare / call / jump and generic
commands (through `CmdArgs.rearrange`) -/
theorem listener_statements (ss : List CStmt) (h : CStmt.WFList ss) (σ : State) (hi : Idle σ) (hb : Bounded σ σ.next) :
    walkList (CStmt.toPTs ss) σ
      = (deliverItems (CStmt.pSList ss σ.next) σ).map (·.ghost (σ.next + CStmt.cntList ss) none) ∧
    PStmt.reifyList (CStmt.pSList ss σ.next) = some (CStmt.trList ss) ∧
    Translate.statements (CStmt.toPTs ss) = some (CStmt.trList ss) :=
  ⟨CStmt.specList ss h σ hi hb, CStmt.reify_pSList ss _ h, CStmt.translateList ss h⟩

/-! ## what the hypothesis excludes -/

/-- `<<cmd>> #tag`: an instance of the PARSER grammar (`command_statement : … COMMAND_TEXT_END (hashtag*)`) on which the
listener calls the nil `hashtagCallback`: the callback is only set inside a line statement, and a command statement is
walked from a state in which it is nil (`Idle`). The lexer keeps such trees out of every error-free parse: after a hashtag
it is in `TextCommandOrHashtagMode`, which it only leaves with a NEWLINE token, and only `line_statement` accepts that
token. Hence `Conforms` has no production for a command with hashtags. -/
theorem hashtag_outside_line_panics (h t : String) (hh : oneAscii h = true) (σ : State)
    (hc : σ.hashtagCallback = false) : enter .hashtag [.tok .hashtag h, .tok .hashtagText t] σ = .panic := by
  simp [enter, ctxText_tag, dropFirstByte_tag _ _ hh, hc]

/-- a tree that is not rooted in a `dialogue` context leaves `listener.dialogue` nil -/
example : (build (.rule .node [])).isPanic = true := by decide

/-- an expression outside every statement: Peek on the empty expression stack -/
example : (build (.rule .dialogue [.rule .expValue [.rule .valueTrue [.tok .keywordTrue "true"]]])).isPanic = true := by
  decide

/-- a binary context whose operator token is not in `tokenToBinaryOperator` -/
example : (build (.rule .dialogue [.rule .expAddSub [.err, .tok .comma ",", .err]])).isPanic = true := by decide

/-! ## non-vacuity -/

/-- no texts for the tokens nobody reads -/
def noTx : Tx := fun _ => ""

/-- `1 + f(2, $x) * (not true)` -/
def exExpr : CExpr :=
  .bin .add .opAdd noTx (.value (.num "1"))
    (.bin .mul .opMul noTx
      (.value (.call (.mk "f" noTx true [.value (.num "2"), .value (.var "$x")])))
      (.parens noTx (.not noTx (.value (.tru noTx)))))

example : exExpr.WF := by
  simp only [exExpr, CExpr.WF, CValue.WF, CCall.WF, CExpr.WFList]
  decide

example : exExpr.tr
    = .bin .add (.lit (.num (numberValue "1")))
        (.bin .mul (.call "f" [.lit (.num (numberValue "2")), .var (Translate.tail1 "$x")]) (.not (.lit (.bool true)))) := by
  simp [exExpr, CExpr.tr, CValue.tr, CCall.tr, CExpr.trList, BinKind.op, Translate.addOp, Translate.mulOp]

/-- ```
title: A
---
hi {1 + f(2, $x) * (not true)} there <<if $ok>> #t1
-> opt
    <<if $x>>
        <<set $y to 1>>
    <<else>>
        <<cmd a {2} b>>
    <<endif>>
<<declare $z = "s">>
<<jump A>>
===
``` -/
def exDialogue : CDialogue :=
  { fileTags := []
    nodes := [
      { headers := [⟨"title", ": ", some "A"⟩]
        tx := noTx
        body := [
          .line { elems := [.text "h", .text "i ", .expr noTx exExpr, .text " there "]
                  cond := some (noTx, .value (.var "$ok"))
                  tags := [("#", "t1")]
                  nl := "\n" },
          .opts [.withBody noTx { elems := [.text "o", .text "pt"], cond := none, tags := [], nl := "\n" }
            [.ifs noTx (.value (.var "$x")) [.block noTx [.set noTx "$y" .opAssign (.value (.num "1"))]]
              (.else_ noTx [.block noTx [.cmd noTx [.text "c", .text "md a ", .expr noTx (.value (.num "2")), .text " b"]]])]]
            none,
          .declare noTx "$z" (.str "\"s\"") false,
          .jumpId noTx "A"] }] }

theorem exDialogue_wf : exDialogue.WF := by
  refine ⟨by simp [exDialogue], ?_⟩
  intro n hn
  simp only [exDialogue, List.mem_singleton] at hn
  subst hn
  refine ⟨by simp, ?_⟩
  simp only [CStmt.WFList, CStmt.WF, COpt.WFList, COpt.WF, CClauses.WF, CCmdEl.WFList, CCmdEl.WF, CExpr.WF, CValue.WF,
    and_true, true_and]
  refine ⟨⟨by simp, ?_, ?_, ?_⟩, ⟨by simp, ⟨⟨by simp, ?_, ?_, ?_⟩, ?_⟩⟩, ?_⟩
  · simp only [CElem.WFList, CElem.WF, and_true]
    refine ⟨by decide, by decide, ?_, by decide⟩
    simp only [exExpr, CExpr.WF, CValue.WF, CCall.WF, CExpr.WFList]
    decide
  · intro tx c h
    cases h
    simp only [CExpr.WF, CValue.WF]
    decide
  · intro t ht
    simp only [List.mem_singleton] at ht
    subst ht
    decide
  · simp only [CElem.WFList, CElem.WF, and_true]
    exact ⟨by decide, by decide⟩
  · intro tx c h
    cases h
  · intro t ht
    cases ht
  · refine ⟨by decide, ⟨by decide, by decide, by decide⟩, by decide, by decide, by decide, by decide⟩
  · exact ⟨by decide, by decide⟩

example : Conforms exDialogue.toPT := ⟨exDialogue, exDialogue_wf, rfl⟩

/-- the hypothesis is satisfiable and the conclusion is about this very tree -/
example : build exDialogue.toPT = .ok exDialogue.tr ∧ Translate.translate exDialogue.toPT = some exDialogue.tr :=
  ⟨CDialogue.build_eq _ exDialogue_wf, CDialogue.translate _ exDialogue_wf⟩

end Ysgo.Listener
