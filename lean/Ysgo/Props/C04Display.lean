import Ysgo.Lemmas.F64Shortest
/-!
# C04 — the clause on the display form of numbers (`variable.Value.ToString`, DESIGN.md §5 C04 theorem 1)

`display x = if x == float64(int(x)) then Itoa(int(x)) else fmt.Sprint(x)`, over every double:
* integer-valued doubles in the int64 range `[-2^63, 2^63)` print as that integer: an optional `-` and decimal digits,
  no point, no exponent (`-0` prints `0`) — also above `2^53`, where `float64(int(x))` is a rounding conversion in general;
* integer-valued doubles outside that range (`int(x)` is then `-2^63` on amd64), non-integral doubles, NaN and the
  infinities print as `fmt.Sprint` does (`fmtG`): `NaN`, `+Inf`, `-Inf`, and for finite numbers the digits found by
  `shortest`, which denote a decimal inside the rounding interval of `x` (`fmtG_roundtrip_partial`).
What remains for the full round trip `parseFloat (fmtG x) = .val x` is listed at `fmtG_roundtrip_partial`.
-/
namespace Ysgo.C04
open Ysgo F64

theorem cast_bounds {z : ℤ} {q : ℚ} (hz : (z : ℚ) = q) :
    (-(2 : ℚ) ^ 63 ≤ q ↔ -(P63 : ℤ) ≤ z) ∧ (q < 2 ^ 63 ↔ z < (P63 : ℤ)) ∧ (2 ^ 63 ≤ q ↔ (P63 : ℤ) ≤ z)
      ∧ (q < -(2 : ℚ) ^ 63 ↔ z < -(P63 : ℤ)) := by
  have h63 : (((P63 : ℕ) : ℤ) : ℚ) = 2 ^ 63 := P63_castZ
  rw [← hz, ← h63]
  refine ⟨?_, ?_, ?_, ?_⟩
  · rw [← Int.cast_neg, Int.cast_le]
  · rw [Int.cast_lt]
  · rw [Int.cast_le]
  · rw [← Int.cast_neg, Int.cast_lt]

/-- **C04.1a** integral numbers in the int64 range print as the integer -/
theorem display_integral (x : F64) (hx : Finite x) (z : ℤ) (hz : (z : ℚ) = val x)
    (hlo : -(2 : ℚ) ^ 63 ≤ val x) (hhi : val x < 2 ^ 63) : display x = itoa z := by
  obtain ⟨c1, c2, -, -⟩ := cast_bounds hz
  exact display_int hx z hz (c1.mp hlo) (c2.mp hhi)

/-- the statement of the assignment: `|x| < 2^63` -/
theorem display_integral_abs (x : F64) (hx : Finite x) (hint : IsInt (val x)) (hb : |val x| < 2 ^ 63) :
    ∃ z : ℤ, (z : ℚ) = val x ∧ display x = itoa z := by
  obtain ⟨z, hz⟩ := hint
  obtain ⟨h1, h2⟩ := abs_lt.mp hb
  exact ⟨z, hz.symm, display_integral x hx z hz.symm (le_of_lt h1) h2⟩

/-- `-0` prints `0` -/
theorem display_neg_zero : display (zero true) = "0" := by
  have := display_integral (zero true) (finite_zero _) 0 (by rw [val_zero]; simp) (by rw [val_zero]; norm_num)
    (by rw [val_zero]; norm_num)
  rw [this]; decide

/-- **C04.1b** integral numbers outside the int64 range go to `fmt.Sprint` (e.g. `1e+21`) -/
theorem display_integral_big (x : F64) (hx : Finite x) (z : ℤ) (hz : (z : ℚ) = val x)
    (hbig : val x < -(2 : ℚ) ^ 63 ∨ 2 ^ 63 ≤ val x) : display x = fmtG x := by
  obtain ⟨-, -, c3, c4⟩ := cast_bounds hz
  apply display_int_big hx z hz
  rcases hbig with h | h
  · exact Or.inr (c4.mp h)
  · exact Or.inl (c3.mp h)

/-- **C04.1c** non-integral numbers go to `fmt.Sprint` -/
theorem display_nonintegral_uses_fmtG (x : F64) (hx : Finite x) (h : ¬ IsInt (val x)) : display x = fmtG x :=
  display_nonint hx h

/-- **C04.1d** NaN (every payload) and the infinities: `NaN`, `+Inf`, `-Inf` -/
theorem display_nonfinite (x : F64) (h : ¬ Finite x) :
    display x = fmtG x ∧
      ((decode x = .nan ∧ fmtG x = "NaN") ∨ (decode x = .inf false ∧ fmtG x = "+Inf")
        ∨ (decode x = .inf true ∧ fmtG x = "-Inf")) := by
  have he : expField x = 2047 := by unfold F64.Finite at h; exact not_not.mp h
  obtain ⟨of, -⟩ := ofInt_minInt
  obtain ⟨b, m, e, hdo, -⟩ := decode_finite of
  have hdx : decode x = .nan ∨ decode x = .inf false ∨ decode x = .inf true := by
    unfold decode
    rw [if_pos he]
    split
    · cases signBit x <;> simp
    · exact Or.inl rfl
  have hti : ∀ c, (c = Cls.nan ∨ c = Cls.inf false ∨ c = Cls.inf true) → decode x = c →
      toInt64 x = -(P63 : ℤ) ∧ eq x (ofInt (-(P63 : ℤ))) = false := by
    intro c hc hd
    refine ⟨?_, ?_⟩
    · unfold toInt64; rw [hd]; rcases hc with rfl | rfl | rfl <;> rfl
    · unfold eq; rw [hd, hdo]; rcases hc with rfl | rfl | rfl <;> rfl
  obtain ⟨ht, hq⟩ := hti _ hdx rfl
  refine ⟨?_, ?_⟩
  · unfold display
    simp only [ht, hq, Bool.false_eq_true, ↓reduceIte]
  · rcases hdx with hd | hd | hd
    · exact Or.inl ⟨hd, by unfold fmtG; rw [hd]⟩
    · exact Or.inr (Or.inl ⟨hd, by unfold fmtG; rw [hd]; rfl⟩)
    · exact Or.inr (Or.inr ⟨hd, by unfold fmtG; rw [hd]; rfl⟩)

theorem display_nan_inf :
    display nan = "NaN" ∧ display (inf false) = "+Inf" ∧ display (inf true) = "-Inf" := by decide

/-- **C04.1** `display_forms`: the case distinction of `Value.ToString` on numbers, complete over all doubles -/
theorem display_forms (x : F64) :
    (Finite x → ∀ z : ℤ, (z : ℚ) = val x → -(2 : ℚ) ^ 63 ≤ val x → val x < 2 ^ 63 → display x = itoa z)
    ∧ (Finite x → (¬ IsInt (val x) ∨ val x < -(2 : ℚ) ^ 63 ∨ 2 ^ 63 ≤ val x) → display x = fmtG x)
    ∧ (¬ Finite x → display x = fmtG x ∧ (fmtG x = "NaN" ∨ fmtG x = "+Inf" ∨ fmtG x = "-Inf")) := by
  refine ⟨fun hx z hz h1 h2 => display_integral x hx z hz h1 h2, ?_, ?_⟩
  · intro hx h
    by_cases hint : IsInt (val x)
    · obtain ⟨z, hz⟩ := hint
      rcases h with h | h
      · exact absurd ⟨z, hz⟩ h
      · exact display_integral_big x hx z hz.symm h
    · exact display_nonintegral_uses_fmtG x hx hint
  · intro hx
    obtain ⟨h1, h2⟩ := display_nonfinite x hx
    refine ⟨h1, ?_⟩
    rcases h2 with ⟨-, h⟩ | ⟨-, h⟩ | ⟨-, h⟩
    · exact Or.inl h
    · exact Or.inr (Or.inl h)
    · exact Or.inr (Or.inr h)

/-- **The integer form has no decimal point and no exponent**: `itoa z` is an optional leading `-` followed by
the decimal digits of `|z|` (at least one, denoting `|z|`) -/
theorem itoa_digits (z : ℤ) :
    (itoa z).toList = (if z < 0 then ['-'] else []) ++ Nat.toDigits 10 z.natAbs
    ∧ Nat.toDigits 10 z.natAbs ≠ []
    ∧ (∀ c ∈ Nat.toDigits 10 z.natAbs, c.isDigit = true)
    ∧ digitsVal (Nat.toDigits 10 z.natAbs) = z.natAbs := by
  refine ⟨?_, Nat.toDigits_ne_nil, ?_, digitsVal_toDigits _⟩
  · rw [itoa_eq, String.toList_ofList]
    by_cases h : z < 0 <;> simp [h]
  · intro c hc
    exact Nat.isDigit_of_mem_toDigits (by decide) (by decide) hc

theorem itoa_chars (z : ℤ) : ∀ c ∈ (itoa z).toList, c = '-' ∨ c.isDigit = true := by
  obtain ⟨h1, -, h3, -⟩ := itoa_digits z
  intro c hc
  rw [h1, List.mem_append] at hc
  rcases hc with hc | hc
  · left
    split at hc
    · simpa using hc
    · simp at hc
  · exact Or.inr (h3 c hc)

theorem itoa_no_point_no_exponent (z : ℤ) :
    '.' ∉ (itoa z).toList ∧ 'e' ∉ (itoa z).toList ∧ 'E' ∉ (itoa z).toList ∧ '+' ∉ (itoa z).toList := by
  have h := itoa_chars z
  refine ⟨?_, ?_, ?_, ?_⟩ <;>
  · intro hc
    rcases h _ hc with h' | h'
    · exact absurd h' (by decide)
    · exact absurd h' (by decide)

/-- **Partial round trip of the shortest form.** Whenever the digit search of `fmt.Sprint` returns the `nd`-digit
number `d` with decimal exponent `k` (the decimal `d.ddd × 10^k = d·10^(k-(nd-1))`), that decimal lies inside the
rounding interval of `|x| = m·2^e` — between the midpoints to the two neighbouring doubles, the midpoints themselves
included exactly when `m` is even — and so within half a unit in the last place of `|x|`.

Full statement (stage 3): `∀ x finite, ¬ IsInt (val x) → parseFloat (fmtG x) = .val x`, and no shorter digit string has
this property. Missing for it:
1. *rounding back*: for `c = n/d > 0` with `InsideRounding x m e c`, `roundQuot s n d = x` (resp. `roundDyadic s N 0`):
   needs the spacing of doubles (no double strictly between `m·2^e` and `(m+1)·2^e`; `Faithful` of `F64Mono` then confines
   the result to `x` and its two neighbours), the tie-to-even behaviour of `rne` at the two midpoints, and injectivity of
   `decode` on finite doubles (equal value and sign bit ⇒ equal bits);
2. *layout*: the three layouts of `fmtG` (`%e` form, `0.000ddd`, `ddd.ddd`/`ddd000`) are read by `parseFloat.go` as
   mantissa `d` stripped of trailing zeros and a decimal exponent with `mant·10^e10 = d·10^(k-(nd-1))`;
3. *totality and minimality*: `shortest x ≠ none` for finite non-zero `x` (17 digits always suffice; needs the
   specification of `ilog10`), and that testing the two `nd`-digit neighbours of `|x|` suffices at each length. -/
theorem fmtG_roundtrip_partial (x : F64) (d nd : ℕ) (k : ℤ) (h : shortest x = some (d, nd, k)) :
    ∃ s m e, decode x = .fin s m e ∧ m ≠ 0 ∧ 1 ≤ nd ∧ nd ≤ 17
      ∧ InsideRounding x m e ((d : ℚ) * 10 ^ (k - ((nd : ℤ) - 1)))
      ∧ |(d : ℚ) * 10 ^ (k - ((nd : ℤ) - 1)) - (|val x|)| ≤ 2 ^ e / 2 := by
  obtain ⟨s, m, e, hd, hm, h1, h2, hin⟩ := shortest_inside h
  refine ⟨s, m, e, hd, hm, h1, h2, hin, ?_⟩
  rw [val_of_decode hd, abs_fval]
  generalize (d : ℚ) * 10 ^ (k - ((nd : ℤ) - 1)) = c at *
  have hgap : (if m = P52 ∧ expField x > 1 then (2 : ℚ) ^ (e - 1) else 2 ^ e) ≤ 2 ^ e := by
    split
    · rw [two_zpow_le_iff]; omega
    · exact le_refl _
  unfold InsideRounding at hin
  generalize (if m = P52 ∧ expField x > 1 then (2 : ℚ) ^ (e - 1) else 2 ^ e) = gap at *
  rw [abs_le]
  split at hin
  · constructor <;> linarith [hin.1, hin.2]
  · constructor <;> linarith [hin.1, hin.2]

/-! ### instances -/

-- integral, below and above 2^53, the ends of the int64 range, -0
example : display ⟨4613937818241073152⟩ = "3" := by decide
example : display ⟨4845873199050653697⟩ = "9007199254740994" := by decide         -- 2^53 + 2
example : display ⟨14114281232179134464⟩ = "-9223372036854775808" := by decide    -- -2^63
example : display (zero true) = "0" := display_neg_zero
-- integral outside the int64 range, and non-integral: `fmt.Sprint`
example : display ⟨4890909195324358656⟩ = "9.223372036854776e+18" := by decide +kernel   -- 2^63
example : display ⟨4921056587992461136⟩ = "1e+21" := by decide +kernel
example : display ⟨4612811918334230528⟩ = "2.5" := by decide +kernel
example : display ⟨4591870180066957722⟩ = "0.1" := by decide +kernel
example : display ⟨4698053238757261312⟩ = "1.2345675e+06" := by decide +kernel           -- 1234567.5
/-- the hypotheses of `display_integral` hold for 2^53 + 2 -/
example : Finite (⟨4845873199050653697⟩ : F64) ∧ ((9007199254740994 : ℤ) : ℚ) = val ⟨4845873199050653697⟩ := by
  refine ⟨by decide, ?_⟩
  have hd : decode ⟨4845873199050653697⟩ = .fin false 4503599627370497 1 := by decide
  rw [val_of_decode hd]; norm_num [fval, sgn]
/-- the hypothesis of `fmtG_roundtrip_partial` holds for 0.1: digits `1`, one digit, exponent -1 -/
example : shortest ⟨4591870180066957722⟩ = some (1, 1, -1) := by decide +kernel
example : shortest ⟨4698053238757261312⟩ = some (12345675, 8, 6) := by decide +kernel

end Ysgo.C04

#print axioms Ysgo.C04.display_integral
#print axioms Ysgo.C04.display_integral_abs
#print axioms Ysgo.C04.display_neg_zero
#print axioms Ysgo.C04.display_integral_big
#print axioms Ysgo.C04.display_nonintegral_uses_fmtG
#print axioms Ysgo.C04.display_nonfinite
#print axioms Ysgo.C04.display_nan_inf
#print axioms Ysgo.C04.display_forms
#print axioms Ysgo.C04.itoa_digits
#print axioms Ysgo.C04.itoa_chars
#print axioms Ysgo.C04.itoa_no_point_no_exponent
#print axioms Ysgo.C04.fmtG_roundtrip_partial
