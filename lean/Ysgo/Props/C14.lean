import Ysgo.Model.Markup
/-!
# C14 — markup parsing is a pure function of the line

The model threads the two counters that persist in the Go struct (`ParserState`) through every call and returns them on
every path, also on errors. The theorems say that nothing of an earlier call can be seen in a later one.
(C14.3 `runner_lines_history_independent` belongs to the runner model, which calls `parseLine` with its single parser
value; it follows from `parse_state_independent`.)
-/
namespace Ysgo.Markup

/-- C14.1: text, attributes, positions and source positions — and even the outgoing parser state — do not depend on the
incoming parser state -/
theorem parse_state_independent (st st' : ParserState) (input : List Char) :
    parseRunes st input = parseRunes st' input := rfl

theorem parseLine_state_independent (st st' : ParserState) (input : String) :
    parseLine st input = parseLine st' input := rfl

/-- the parser value after a history of calls, failing ones included -/
def afterHistory (st : ParserState) (hist : List (List Char)) : ParserState :=
  hist.foldl (fun st h => (parseRunes st h).1) st

/-- C14.2: after any history of earlier calls on the same parser value — lines that failed to parse included — a line
parses exactly as on a fresh parser -/
theorem history_independent (st0 : ParserState) (hist : List (List Char)) (input : List Char) :
    (parseRunes (afterHistory st0 hist) input).2 = (parseRunes {} input).2 :=
  congrArg Prod.snd (parse_state_independent _ _ input)

/-! Non-vacuity: the threaded state is real — a call does change the counters, an error path too — yet the next result
is the fresh one. -/

example : (parseRunes {} "ab[b]cd[/b]".toList).1 = { sourcePosition := 11, position := 4 } := by decide +kernel
example : (parseRunes {} "ab [b".toList).2 = .err ∧ (parseRunes {} "ab [b".toList).1 = { sourcePosition := 5, position := 3 } := by
  decide +kernel
example : afterHistory {} ["ab[b]cd[/b]".toList, "ab [b".toList] ≠ {} := by decide +kernel

#print axioms parse_state_independent
#print axioms history_independent

end Ysgo.Markup
