import Ysgo.Lemmas.F64Unit
/-!
# C09 — the clause "random() is a number in [0,1)"

`Rng.float64` is Go's `Rand.Float64`: `float64(Int63()) / (1<<63)`, redrawn when the quotient rounds to 1. Every value
it returns is a finite, non-negative (sign bit clear: never `-0`) double strictly below 1 — for every generator state,
i.e. for every seed and every history. The integer clauses (`dice`, `random_range`) are in `Props/C09.lean`.
-/
namespace Ysgo.C09
open Ysgo F64

/-- **C09, float clause.** Whatever the state of the source and the fuel, a value returned by `Float64` is a finite
double with `0 ≤ f < 1` and a clear sign bit. -/
theorem float_in_unit : ∀ (fuel : ℕ) (g g' : Rng.Src) (f : F64),
    Rng.float64 g fuel = some (f, g') →
      Finite f ∧ signBit f = false ∧ 0 ≤ val f ∧ val f < 1
  | 0, g, g', f, h => by simp [Rng.float64] at h
  | fuel + 1, g, g', f, h => by
    unfold Rng.float64 at h
    have hv := Rng.int63_lt g
    cases hd : Rng.int63 g with
    | mk v g1 =>
      rw [hd] at hv
      simp only [hd] at h
      obtain ⟨hf, hs, h0, h1⟩ := unit_div v hv
      split at h
      · exact float_in_unit fuel g1 g' f h
      · rename_i hne
        simp only [Option.some.injEq, Prod.mk.injEq] at h
        obtain ⟨rfl, -⟩ := h
        refine ⟨hf, hs, h0, ?_⟩
        obtain ⟨of, ov⟩ := ofInt_val 1 (by unfold P53; decide)
        have hne1 : val (div (ofNat v) (ofNat P63)) ≠ 1 := by
          intro he
          apply hne
          rw [eq_iff_val hf of, he, ov]; norm_num
        exact lt_of_le_of_ne h1 hne1

/-- the draws are in range whatever the seed (the statement of the property, over `Rng.seed`) -/
theorem random_in_unit (seed : ℤ) (fuel : ℕ) (f : F64) (g' : Rng.Src)
    (h : Rng.float64 (Rng.seed seed) fuel = some (f, g')) : 0 ≤ val f ∧ val f < 1 :=
  let ⟨_, _, h0, h1⟩ := float_in_unit fuel _ _ _ h
  ⟨h0, h1⟩

/-! ### instances (hand-built generator states; the additive generator only reads `vec[tap-1]`, `vec[feed-1]`) -/

/-- one draw: `Uint64 = 3·2^61`, `Int63 = 3·2^61`, quotient `0.75` -/
def gA : Rng.Src := ⟨#[3458764513820540928, 3458764513820540928], 1, 2⟩
/-- first draw `Int63 = 2^63 - 1`, whose quotient rounds to `1.0` and is rejected; second draw `2^62`, quotient `0.5` -/
def gB : Rng.Src := ⟨#[0, 9223372036854775807, 4611686018427387904, 0], 2, 4⟩

example : (Rng.float64 gA 1).map (·.1) = some ⟨4604930618986332160⟩ := by decide      -- 0.75
example : div (ofNat 9223372036854775807) (ofNat P63) = ofInt 1 := by decide           -- the case the redraw is for
example : (Rng.float64 gB 1).map (·.1) = none := by decide                             -- 1.0 is never returned
example : (Rng.float64 gB 2).map (·.1) = some ⟨4602678819172646912⟩ := by decide      -- redrawn: 0.5
/-- the hypothesis of `float_in_unit` is satisfiable, and the conclusion is what it says for that draw -/
example : ∃ f g', Rng.float64 gA 1 = some (f, g') ∧ Finite f ∧ signBit f = false ∧ 0 ≤ val f ∧ val f < 1 := by
  cases h : Rng.float64 gA 1 with
  | none => exact absurd (congrArg (Option.map (·.1)) h) (by decide)
  | some p => exact ⟨p.1, p.2, rfl, float_in_unit 1 gA p.2 p.1 h⟩

end Ysgo.C09

#print axioms Ysgo.C09.float_in_unit
#print axioms Ysgo.C09.random_in_unit
