import Ysgo.Lemmas.Sim
/-!
# C01 — Dialogue flow follows Yarn's sequential semantics

`runner_refines_flat` / `next_refines_flat`: the stack-of-queues machine of `runner.go` returns, for every program,
every state and every argument, exactly what the flat sequential semantics (`Spec/Flat.lean`) returns, with the same
effects; the clauses of the property are then read off the flat semantics, one theorem each.
-/
namespace Ysgo.C01
open Ysgo
set_option linter.unusedSimpArgs false

variable {σ π μ : Type}

/-- C01.1: every iteration of `Next` either only pops an exhausted queue (the continuation is unchanged) or is exactly
one step of the flat semantics — same output, same effect on variables, visit counts, node, host state -/
theorem runner_refines_flat (env : Env σ) (mk : Markup π μ) (p : Program) (r : R σ π) (c : Nat) :
    ((r.micro env mk p c).2 = none ∧ (r.micro env mk p c).1.abs = { r.abs with d := (poll (μ := μ) r.d).1 }) ∨
    ((r.micro env mk p c).1.abs, (r.micro env mk p c).2) = r.abs.step env mk p c :=
  micro_sim env mk p r c

/-- C01.1 lifted to `Next`, any fuel, any nesting depth, any path: the machine's answer is the flat semantics' answer -/
theorem next_refines_flat (env : Env σ) (mk : Markup π μ) (p : Program) (f : Nat) (r r' : R σ π) (c : Nat)
    (o : Outcome (Elem μ)) (h : r.next env mk p f c = (r', .out o)) :
    ∃ f', r.abs.next env mk p f' c = (r'.abs, .out o) :=
  Ysgo.next_refines_flat env mk p f r r' c o h

/-- statements run in document order: a statement that asks for nothing special leaves exactly the rest of the
continuation -/
theorem sequential_order (env : Env σ) (mk : Markup π μ) (p : Program) (d : Data σ π) (st : Stmt) (k : List Stmt) (c : Nat)
    (hp : poll (μ := μ) d = (d, none)) (d' : Data σ π) (out : Option (Outcome (Elem μ)))
    (he : exec env mk p d st = (d', .next, out)) :
    (({ d := d, k := st :: k, waiting := none } : Flat σ π).step env mk p c).1.k = k := by
  simp [Flat.step, hp, he, applyCtlS]

/-- an if/elseif/else chain runs only the body of its first true clause, then what followed the chain -/
theorem if_runs_first_true_clause_only (env : Env σ) (mk : Markup π μ) (p : Program) (d : Data σ π)
    (cs : List (Expr × List Stmt)) (k : List Stmt) (c : Nat) (hp : poll (μ := μ) d = (d, none))
    (b : List Stmt) (w : W σ) (h : firstTrue env d.store d.visited cs d.w = (.ok (some b), w)) :
    (({ d := d, k := .ifs cs :: k, waiting := none } : Flat σ π).step env mk p c) =
      ({ d := { d with w := w }, k := b ++ k, waiting := none }, none) := by
  simp [Flat.step, hp, exec, h, applyCtlS, isOpts]

/-- … and no body at all when no clause is true -/
theorem if_without_true_clause_runs_nothing (env : Env σ) (mk : Markup π μ) (p : Program) (d : Data σ π)
    (cs : List (Expr × List Stmt)) (k : List Stmt) (c : Nat) (hp : poll (μ := μ) d = (d, none))
    (w : W σ) (h : firstTrue env d.store d.visited cs d.w = (.ok none, w)) :
    (({ d := d, k := .ifs cs :: k, waiting := none } : Flat σ π).step env mk p c) =
      ({ d := { d with w := w }, k := k, waiting := none }, none) := by
  simp [Flat.step, hp, exec, h, applyCtlS, isOpts]

/-- `firstTrue` returns the body of the first clause whose condition is true, skipping false ones in order -/
theorem firstTrue_skips_false (env : Env σ) (st : Store) (vis : Map Nat) (c : Expr) (b : List Stmt)
    (cs : List (Expr × List Stmt)) (w w' : W σ) (h : eval env st vis c w = (.ok (.bool false), w')) :
    firstTrue env st vis ((c, b) :: cs) w = firstTrue env st vis cs w' := by
  simp [firstTrue, h]

theorem firstTrue_takes_true (env : Env σ) (st : Store) (vis : Map Nat) (c : Expr) (b : List Stmt)
    (cs : List (Expr × List Stmt)) (w w' : W σ) (h : eval env st vis c w = (.ok (.bool true), w')) :
    firstTrue env st vis ((c, b) :: cs) w = (.ok (some b), w') := by
  simp [firstTrue, h]

/-- choosing option `i` runs exactly that option's body and then continues after the option group -/
theorem choice_runs_that_body_then_continues (env : Env σ) (mk : Markup π μ) (p : Program) (d : Data σ π)
    (bodies : List (List Stmt)) (k : List Stmt) (i : Nat) (b : List Stmt) (hp : poll (μ := μ) d = (d, none))
    (hb : bodies[i]? = some b) :
    (({ d := d, k := k, waiting := some bodies } : Flat σ π).step env mk p i) =
      ({ d := d, k := b ++ k, waiting := none }, none) := by
  simp [Flat.step, hp, hb]

/-- a successful jump abandons everything pending and continues at the first statement of the target node -/
theorem jump_abandons_pending_and_enters_target (env : Env σ) (mk : Markup π μ) (p : Program) (d : Data σ π)
    (e : Expr) (k : List Stmt) (c : Nat) (hp : poll (μ := μ) d = (d, none))
    (t : String) (w : W σ) (n : Node) (he : eval env d.store d.visited e d.w = (.ok (.str t), w)) (hf : p.find t = some n) :
    let s' := (({ d := d, k := .jump e :: k, waiting := none } : Flat σ π).step env mk p c)
    s'.1.k = n.body ∧ s'.1.d.cur = n.title ∧ s'.2 = none ∧ s'.1.waiting = none := by
  simp [Flat.step, hp, exec, he, hf, applyCtlS, isOpts]

/-- `<<stop>>` ends the dialogue: nothing is left to run, whatever followed it -/
theorem stop_ends_without_fallthrough (env : Env σ) (mk : Markup π μ) (p : Program) (d : Data σ π) (k : List Stmt) (c : Nat)
    (hp : poll (μ := μ) d = (d, none)) :
    (({ d := d, k := .cmd [.lit (.str "stop")] :: k, waiting := none } : Flat σ π).step env mk p c) =
      ({ d := d, k := [], waiting := none }, some (.ok .ended)) := by
  simp [Flat.step, hp, exec, evalArgs, eval, applyCtlS, isOpts]

/-- running off the end of a node ends the dialogue: the continuation never contains another node's statements
unless a jump put them there (see `jump_abandons_pending_and_enters_target`: `k` is replaced, never extended, by a node body) -/
theorem node_end_ends_without_fallthrough (env : Env σ) (mk : Markup π μ) (p : Program) (d : Data σ π) (c : Nat)
    (hp : poll (μ := μ) d = (d, none)) :
    (({ d := d, k := [], waiting := none } : Flat σ π).step env mk p c) = ({ d := d, k := [], waiting := none }, some (.ok .ended)) := by
  simp [Flat.step, hp]

/-- the argument of `Next` has no effect unless the previous element was an option group -/
theorem choice_ignored_unless_waiting (env : Env σ) (mk : Markup π μ) (p : Program) (r : R σ π) (h : r.waiting = none)
    (c c' : Nat) : r.micro env mk p c = r.micro env mk p c' := by
  unfold R.micro
  cases hp : poll (μ := μ) r.d with
  | mk d o => cases o <;> simp [h]

/-- … lifted to `Next`: as long as no choice is expected the whole call is independent of the argument -/
theorem next_ignores_argument_unless_waiting (env : Env σ) (mk : Markup π μ) (p : Program) :
    ∀ (f : Nat) (r : R σ π), r.waiting = none → ∀ c c', r.next env mk p f c = r.next env mk p f c'
  | 0, _, _, _, _ => by simp [R.next]
  | f + 1, r, h, c, c' => by
    unfold R.next
    rw [choice_ignored_unless_waiting env mk p r h c c']
    cases hm : r.micro env mk p c' with
    | mk r1 o1 =>
      cases o1 with
      | some out => rfl
      | none =>
        simp only
        -- a micro step without output never starts to wait for a choice
        have hw : r1.waiting = none := by
          unfold R.micro at hm
          cases hp : poll (μ := μ) r.d with
          | mk d o =>
            cases o with
            | some out => simp [hp] at hm
            | none =>
              simp only [hp, h] at hm
              cases hs : r.stack with
              | nil => simp [hs] at hm
              | cons q rest =>
                simp only [hs] at hm
                cases hq : q.stmts[q.ptr]? with
                | none => simp [hq] at hm; rw [← hm]
                | some st =>
                  simp only [hq] at hm
                  cases he : exec env mk p d st with
                  | mk d' co =>
                    obtain ⟨ctl, out⟩ := co
                    simp only [he, Prod.mk.injEq] at hm
                    obtain ⟨h1, h2⟩ := hm
                    subst h2
                    rw [← h1]
        exact next_ignores_argument_unless_waiting env mk p f r1 hw c c'

/-- the start node is the first node of the first reader (readers are concatenated in order) -/
theorem start_is_first_node_of_first_reader (n : Node) (ns more : List Node) (store : Store) (w : W σ) (ms : π) :
    ∃ r : R σ π, R.init ((n :: ns) ++ more) store w ms = some r ∧ r.d.cur = n.title ∧ r.stack = [⟨n.body, 0⟩] ∧ r.waiting = none :=
  ⟨_, rfl, rfl, rfl, rfl⟩

/-- nodes supplied through several readers behave as one script: a node is found in the concatenation exactly as in
the reader that holds its first occurrence -/
theorem readers_concat (p₁ p₂ : Program) (t : String) :
    Program.find (p₁ ++ p₂) t = match Program.find p₁ t with | some n => some n | none => Program.find p₂ t := by
  unfold Program.find
  rw [List.find?_append]
  cases List.find? (fun n => n.title == t) p₁ <;> rfl


/-! ### whole traces: every path, every length -/

/-- a run of the flat semantics over a sequence of arguments of `Next` -/
inductive FlatRun (env : Env σ) (mk : Markup π μ) (p : Program) :
    Flat σ π → List Nat → List (Outcome (Elem μ)) → Flat σ π → Prop where
  | nil (s : Flat σ π) : FlatRun env mk p s [] [] s
  | cons (s s₁ s₂ : Flat σ π) (c : Nat) (cs : List Nat) (f : Nat) (o : Outcome (Elem μ)) (outs : List (Outcome (Elem μ))) :
      s.next env mk p f c = (s₁, .out o) → FlatRun env mk p s₁ cs outs s₂ → FlatRun env mk p s (c :: cs) (o :: outs) s₂

/-- a run of the machine with a given fuel per call; `none` if some call runs out of fuel -/
def run (env : Env σ) (mk : Markup π μ) (p : Program) (f : Nat) : R σ π → List Nat → Option (List (Outcome (Elem μ)) × R σ π)
  | r, [] => some ([], r)
  | r, c :: cs =>
    match r.next env mk p f c with
    | (r₁, .out o) => (match run env mk p f r₁ cs with
        | some (outs, r₂) => some (o :: outs, r₂)
        | none => none)
    | (_, .fuel) => none

/-- C01 for whole traces: for every program, every sequence of arguments of `Next` of every length and every fuel, the
sequence of elements (lines, option groups, end, errors, with the node each is attributed to) returned by the machine is
a run of the flat sequential semantics from the abstraction of the start state, and the final states correspond -/
theorem run_refines_flat (env : Env σ) (mk : Markup π μ) (p : Program) (f : Nat) :
    ∀ (cs : List Nat) (r r' : R σ π) (outs : List (Outcome (Elem μ))),
      run env mk p f r cs = some (outs, r') → FlatRun env mk p r.abs cs outs r'.abs
  | [], r, r', outs, h => by
    simp only [run, Option.some.injEq, Prod.mk.injEq] at h
    obtain ⟨h1, h2⟩ := h
    subst h1 h2
    exact .nil _
  | c :: cs, r, r', outs, h => by
    simp only [run] at h
    cases hn : r.next env mk p f c with
    | mk r₁ res =>
      cases res with
      | fuel => simp [hn] at h
      | out o =>
        simp only [hn] at h
        cases hr : run env mk p f r₁ cs with
        | none => simp [hr] at h
        | some pr =>
          obtain ⟨outs₁, r₂⟩ := pr
          simp only [hr, Option.some.injEq, Prod.mk.injEq] at h
          obtain ⟨h1, h2⟩ := h
          subst h1 h2
          obtain ⟨f', hf'⟩ := Ysgo.next_refines_flat env mk p f r r₁ c o hn
          exact .cons _ _ _ c cs f' o outs₁ hf' (run_refines_flat env mk p f cs r₁ r₂ outs₁ hr)

/-- non-vacuity of the refinement: a concrete two-level program state on which `micro` performs a real flat step -/
example :
    let r : R Unit Unit := { d := { cur := "n", w := ⟨(), default⟩, ms := () },
                             stack := [⟨[.ifs [(.lit (.bool true), [.jump (.lit (.str "n"))])]], 0⟩, ⟨[.empty], 0⟩] }
    let env : Env Unit := ⟨fun _ _ h => (.err .callFailed, h), fun _ => false, fun _ _ h => (.unknown, h)⟩
    let mk : Markup Unit String := ⟨fun s t => (s, .ok t)⟩
    ((r.micro env mk [] 0).1.abs).k = [.jump (.lit (.str "n")), .empty] := by
  simp [R.micro, poll, exec, firstTrue, eval, applyCtlR, R.abs, SQ.rest]

end Ysgo.C01
