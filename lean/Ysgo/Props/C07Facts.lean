import Ysgo.Generated.StateFacts
/-!
# C07 / C14 — translated facts: the code has no state beyond the model's

The runner model's state is `Data` + stack + pending choice (`Model/Runner.lean`): store, visit counters, current node,
entry checkpoint, pending command, markup-pass state; `restore` rebuilds all of it from the snapshot (C07
`restore_is_entry_state`: the restored state does not depend on the state before). That the *code* has no further state that
survives a `RestoreAt` is a fact about `runner.go`, extracted on every run by `tools/statefacts` (go/ast: where every
field of `DialogueRunner` is written, which methods are called on it where) and decided here:

* every field written anywhere after construction is written by `RestoreAt` too;
* the fields mutated through method calls are the containers the model knows (statement stack, variable storer — both
  cleared by `RestoreAt` —, the two registries, which only the host's `Add…` calls change, the read-only dialogue, and the
  line parser), or are reset by `RestoreAt`;
* every field of `markup.LineParser` is assigned unconditionally on entry of `ParseMarkup` before anything is read (C14's
  model threads exactly those fields and proves they do not matter).

A new cache field that `RestoreAt` forgets (or a new `LineParser` field kept from line to line) breaks these facts; a new
field that is reset properly, renamed fields (fields are found by their type), reordered statements do not.
-/
namespace Ysgo.C07Facts
open Ysgo Generated

def writers (f : String) : List String := ((runnerWrites.find? (·.1 == f)).map (·.2)).getD []
def callsIn (f fn : String) : List String :=
  ((((runnerCalls.find? (·.1 == f)).map (·.2)).getD []).find? (·.1 == fn)).map (·.2) |>.getD []
def allCalls (f : String) : List (String × List String) := ((runnerCalls.find? (·.1 == f)).map (·.2)).getD []

/-- written after construction -/
def dynamic : List String := (runnerFields.map (·.1)).filter (fun f => (writers f).any (· != "NewDialogueRunner"))

/-- the field of a given Go type ("" if there is none): fields are recognised by what they are, not by what they are called -/
def fieldOfType (t : String) : String := ((runnerFields.find? (·.2 == t)).map (·.1)).getD ""

def stackField : String := fieldOfType "container.Stack[*statementQueue]"
def storerField : String := fieldOfType "variable.Storer"
def dialogueField : String := fieldOfType "*tree.Dialogue"
def functionsField : String := fieldOfType "*functionStorer"
def commandsField : String := fieldOfType "*commandStorer"
def parserField : String := fieldOfType "markup.LineParser"

/-- the containers of the model: mutated through their methods -/
def knownContainers : List String := [dialogueField, stackField, storerField, functionsField, commandsField, parserField]

theorem dynamic_state_reset_by_restore : dynamic.all (fun f => (writers f).contains "RestoreAt") = true := by decide

theorem method_mutated_fields_are_model_containers :
    (runnerFields.map (·.1)).all (fun f => (allCalls f).isEmpty || knownContainers.contains f || !(callsIn f "RestoreAt").isEmpty) = true := by
  decide

theorem containers_reset_by_restore :
    (callsIn stackField "RestoreAt").contains "Clear" = true ∧ (callsIn stackField "RestoreAt").contains "Push" = true ∧
    (callsIn storerField "RestoreAt").contains "Clear" = true := by decide

/-- the dialogue is only looked up; the registries are only called outside the host's registration functions -/
theorem dialogue_and_registries_not_mutated_by_running :
    (allCalls dialogueField).all (fun p => p.2.all (· == "FindNode")) = true ∧
    (allCalls functionsField).all (fun p => ["AddFunction", "ConvertAndAddFunction"].contains p.1 || p.2.all (· == "call")) = true ∧
    (allCalls commandsField).all (fun p => ["AddCommand", "ConvertAndAddCommand"].contains p.1 || p.2.all (· == "call")) = true := by decide

/-- the components the model knows are there (so the facts above are about something): the six containers, each found by its
type, and the state written while running — the pending choice, the pending command, the current node, the visit counters,
the entry checkpoint: a pointer into the tree, a channel, a string, two maps -/
theorem model_components_present :
    knownContainers.all (· != "") = true ∧
    (fieldOfType "*tree.Statement" != "" && dynamic.contains (fieldOfType "*tree.Statement")) = true ∧
    (fieldOfType "chan error" != "" && dynamic.contains (fieldOfType "chan error")) = true ∧
    (fieldOfType "string" != "" && dynamic.contains (fieldOfType "string")) = true ∧
    (fieldOfType "map[string]int" != "" && dynamic.contains (fieldOfType "map[string]int")) = true ∧
    (fieldOfType "map[string]variable.Value" != "" && dynamic.contains (fieldOfType "map[string]variable.Value")) = true := by
  decide

/-- C14: a `LineParser` carries nothing from one call to the next -/
theorem lineParser_fields_reset_on_entry :
    lineParserFields.all (fun f => lineParserResetOnEntry.contains f) = true ∧ lineParserFields ≠ [] := by decide

end Ysgo.C07Facts
