import Ysgo.Model.Storer
import Ysgo.Model.Runner
/-!
# C03 — Variables: (compound) assignment, type stability, the storer is the source of truth
-/
namespace Ysgo.C03
open Ysgo
set_option linter.unusedSimpArgs false

variable {σ π μ : Type}

/-! ### 1. what a successful assignment stores -/

/-- `v = e` and `declare` store the value of `e` (when `v` is new or has the same type) -/
theorem assign_stores_value (old : Option Value) (x : Value) (h : ∀ o, old = some o → o.ty = x.ty) :
    applyAssign .set old x = .ok x := by
  cases old with
  | none => simp [applyAssign]
  | some o => have := h o rfl; cases o <;> cases x <;> simp_all [applyAssign, Value.ty]

/-- `v op= e` on numbers stores `v op e` with IEEE double arithmetic (`%` = floating remainder) -/
theorem compound_numbers (a b : F64) :
    applyAssign .add (some (.num a)) (.num b) = .ok (.num (a.add b)) ∧
    applyAssign .sub (some (.num a)) (.num b) = .ok (.num (a.sub b)) ∧
    applyAssign .mul (some (.num a)) (.num b) = .ok (.num (a.mul b)) ∧
    applyAssign .div (some (.num a)) (.num b) = .ok (.num (a.div b)) ∧
    applyAssign .mod (some (.num a)) (.num b) = .ok (.num (a.fmod b)) := by
  simp [applyAssign, Value.ty]

/-- `s += e` on strings appends `e` on the right; no other compound operator applies to strings, none to booleans -/
theorem compound_strings (a b : String) : applyAssign .add (some (.str a)) (.str b) = .ok (.str (a ++ b)) := by
  simp [applyAssign, Value.ty]

theorem compound_strings_others_fail (op : AssignOp) (a b : String) (h : op ≠ .set ∧ op ≠ .add) :
    ∃ k, applyAssign op (some (.str a)) (.str b) = .err k := by
  cases op <;> simp_all [applyAssign, Value.ty]

theorem compound_booleans_fail (op : AssignOp) (a b : Bool) (h : op ≠ .set) :
    ∃ k, applyAssign op (some (.bool a)) (.bool b) = .err k := by
  cases op <;> simp_all [applyAssign, Value.ty]

/-- a variable never changes type: assigning a value of another type is an error -/
theorem type_change_is_error (op : AssignOp) (o x : Value) (h : o.ty ≠ x.ty) :
    applyAssign op (some o) x = .err .illTyped := by
  simp [applyAssign, h]

/-- compound assignment to an unknown variable is an error -/
theorem compound_on_unknown_is_error (op : AssignOp) (x : Value) (h : op ≠ .set) :
    applyAssign op none x = .err .unknownVar := by
  simp [applyAssign, h]

/-- whatever is stored has the type the variable already had -/
theorem assign_keeps_type (op : AssignOp) (o x nv : Value) (h : applyAssign op (some o) x = .ok nv) : nv.ty = o.ty := by
  unfold applyAssign at h
  by_cases ht : o.ty = x.ty
  · cases op <;> cases o <;> cases x <;> simp_all [Value.ty] <;> (subst h; rfl)
  · simp [ht] at h

/-- C03.1 `set_semantics`: a set statement that succeeds performs exactly one write: the assigned variable receives
`applyAssign op old ⟦e⟧` and nothing else changes -/
theorem set_semantics (env : Env σ) (mk : Markup π μ) (p : Program) (d : Data σ π) (v : String) (op : AssignOp) (e : Expr)
    (x nv : Value) (w : W σ) (he : eval env d.store d.visited e d.w = (.ok x, w))
    (ha : applyAssign op (d.store.get v) x = .ok nv) :
    exec env mk p d (.set v op e) = ({ d with w := w, store := d.store.set v nv }, .next, none) := by
  simp [exec, he, ha]

/-! ### 2. a statement that fails leaves every variable exactly as it was -/

/-- C03.2 `set_failure_preserves_store` -/
theorem set_failure_preserves_store (env : Env σ) (mk : Markup π μ) (p : Program) (d : Data σ π) (v : String)
    (op : AssignOp) (e : Expr) (k : ErrKind) (h : (exec env mk p d (.set v op e)).2.2 = some (.err k)) :
    (exec env mk p d (.set v op e)).1.store = d.store := by
  simp only [exec] at h ⊢
  cases he : eval env d.store d.visited e d.w with
  | mk o hh =>
    cases o with
    | ok x =>
      simp only [he] at h ⊢
      cases ha : applyAssign op (d.store.get v) x <;> simp_all
    | err k' => simp
    | panic q => simp

/-- the store is written by successful set statements only: every other statement, and every failing one,
leaves all variables untouched (`stmt_failure_writes_nothing`) -/
theorem only_successful_set_writes (env : Env σ) (mk : Markup π μ) (p : Program) (d : Data σ π) (st : Stmt) :
    (exec env mk p d st).1.store = d.store ∨
    (∃ v op e x nv, st = .set v op e ∧ applyAssign op (d.store.get v) x = .ok nv ∧
      (exec env mk p d st).2.2 = none ∧ (exec env mk p d st).1.store = d.store.set v nv) := by
  cases st with
  | line l => left; simp only [exec]; split <;> rfl
  | opts os => left; simp only [exec]; split <;> rfl
  | set v op e =>
    simp only [exec]
    cases he : eval env d.store d.visited e d.w with
    | mk o hh =>
      cases o with
      | ok x =>
        cases ha : applyAssign op (d.store.get v) x with
        | ok nv => right; exact ⟨v, op, e, x, nv, rfl, ha, by simp [ha], by simp [ha]⟩
        | err k => left; simp [ha]
        | panic q => left; simp [ha]
      | err k => left; simp
      | panic q => left; simp
  | jump e =>
    left; simp only [exec]
    split
    · split <;> rfl
    · rfl
    · rfl
    · rfl
  | ifs cs => left; simp only [exec]; split <;> rfl
  | cmd elems =>
    left; simp only [exec]
    split
    · rfl
    · split
      · split
        · rfl
        · split <;> rfl
      · rfl
      · rfl
      · rfl
  | call f args =>
    left; simp only [exec]
    split
    · split <;> rfl
    · rfl
    · rfl
  | empty => left; rfl

theorem stmt_failure_writes_nothing (env : Env σ) (mk : Markup π μ) (p : Program) (d : Data σ π) (st : Stmt) (k : ErrKind)
    (h : (exec env mk p d st).2.2 = some (.err k)) : (exec env mk p d st).1.store = d.store := by
  rcases only_successful_set_writes env mk p d st with h' | ⟨v, op, e, x, nv, _, _, hn, _⟩
  · exact h'
  · rw [hn] at h; cases h

/-! ### 3. type stability over every statement -/

/-- C03.3 `type_stable`: a variable that has a type keeps it across every statement of every program -/
theorem type_stable (env : Env σ) (mk : Markup π μ) (p : Program) (d : Data σ π) (st : Stmt) (n : String) (o : Value)
    (h : d.store.get n = some o) : ∃ o', (exec env mk p d st).1.store.get n = some o' ∧ o'.ty = o.ty := by
  rcases only_successful_set_writes env mk p d st with h' | ⟨v, op, e, x, nv, _, ha, _, hs⟩
  · exact ⟨o, by rw [h']; exact h, rfl⟩
  · by_cases hv : v = n
    · subst hv
      rw [h] at ha
      exact ⟨nv, by rw [hs, Map.get_set_eq], assign_keeps_type op o x nv ha⟩
    · exact ⟨o, by rw [hs, Map.get_set_ne _ _ _ _ hv]; exact h, rfl⟩

/-! ### 4. the in-memory storer never reports one name under two types and refines the typed map -/

theorem contains_set {β} (m : Map β) (n k : String) (v : β) : (m.set n v).contains k = (k == n || m.contains k) := by
  unfold Map.contains
  by_cases h : n = k
  · subst h; simp [Map.get_set_eq]
  · rw [Map.get_set_ne _ _ _ _ h]
    have : (k == n) = false := by simp; exact fun e => h e.symm
    simp [this]

theorem contains_erase {β} (m : Map β) (n k : String) : (m.erase n).contains k = (k != n && m.contains k) := by
  unfold Map.contains
  by_cases h : n = k
  · subst h; simp [Map.get_erase_eq]
  · rw [Map.get_erase_ne _ _ _ h]
    have : (k != n) = true := by simp; exact fun e => h e.symm
    simp [this]

/-- C03.4 `storer_single_type`: the invariant holds initially and after every write of either party -/
theorem storer_inv_init : Storer3.Inv {} := by
  intro n; simp [Map.contains, Map.get]

theorem storer_inv_set (s : Storer3) (h : s.Inv) (n : String) (v : Value) : (s.setValue n v).Inv := by
  intro k
  have hk := h k
  cases v <;>
    simp only [Storer3.setValue, Storer3.setNumber, Storer3.setBoolean, Storer3.setString, contains_set, contains_erase] <;>
    by_cases e : k = n <;> simp_all

theorem storer_inv_clear (s : Storer3) : s.clear.Inv := storer_inv_init

/-- under the invariant `GetValue` and `GetValues` agree on every name: never two types for one name -/
theorem getValue_eq_getValues (s : Storer3) (h : s.Inv) (n : String) : s.getValue n = s.getValuesAt n := by
  have hn := h n
  unfold Storer3.getValue Storer3.getValuesAt
  unfold Map.contains at hn
  cases h1 : s.numbers.get n <;> cases h2 : s.booleans.get n <;> cases h3 : s.strings.get n <;> simp_all

/-- the concrete storer refines the typed map: reading back what was written, other names untouched -/
theorem getValue_setValue_eq (s : Storer3) (n : String) (v : Value) : (s.setValue n v).getValue n = some v := by
  cases v <;> simp [Storer3.setValue, Storer3.setNumber, Storer3.setBoolean, Storer3.setString, Storer3.getValue,
    Map.get_set_eq, Map.get_erase_eq]

theorem getValue_setValue_ne (s : Storer3) (n k : String) (v : Value) (h : n ≠ k) :
    (s.setValue n v).getValue k = s.getValue k := by
  cases v <;> simp [Storer3.setValue, Storer3.setNumber, Storer3.setBoolean, Storer3.setString, Storer3.getValue,
    Map.get_set_ne _ _ _ _ h, Map.get_erase_ne _ _ _ h]

/-! ### 5. reads see the last write; all access goes through the storer -/

/-- C03.5 `reads_see_last_write`: a variable read returns the value of the latest write to that name, by either
party (a host write between two steps is `store.set`), and writes to other names do not matter -/
theorem reads_see_last_write (env : Env σ) (st : Store) (vis : Map Nat) (n : String) (v : Value) (w : W σ) :
    eval env (st.set n v) vis (.var n) w = (.ok v, w) := by
  simp [eval, Map.get_set_eq]

theorem reads_ignore_other_writes (env : Env σ) (st : Store) (vis : Map Nat) (n k : String) (v : Value) (w : W σ) (h : k ≠ n) :
    eval env (st.set k v) vis (.var n) w = eval env st vis (.var n) w := by
  simp [eval, Map.get_set_ne _ _ _ _ h]

/-- an unknown variable is an error, never a default value -/
theorem unknown_variable_is_error (env : Env σ) (st : Store) (vis : Map Nat) (n : String) (w : W σ) (h : st.get n = none) :
    eval env st vis (.var n) w = (.err .unknownVar, w) := by
  simp [eval, h]

/-- non-vacuity: `$s += "b"` on `s = "a"` stores `"ab"` -/
example : applyAssign .add (some (.str "a")) (.str "b") = .ok (.str "ab") := by simp [applyAssign, Value.ty]

end Ysgo.C03
