import Ysgo.Sexp
import Ysgo.Obs
import Ysgo.Model.F64
