import Ysgo.Sexp
import Ysgo.Obs
import Ysgo.Model.Indent
import Ysgo.Model.BodyParse
/-!
Driver for the `tokens` stream (C20 balance, C08 layout, C01.4 body nesting).

Profile `layout`: `(case tokens <id> layout (class c) (wf b) (text (s ...)) (infos (w m n) ...) (nodes (node <pline>...) ...))`
Observations (the Go side prints the same from the real lexer / parser):

* 0 kinds of the NEWLINE / INDENT / DEDENT / EOF tokens, `Indent.lex (Indent.scan text)`, as `N I D E`
* 1 number of lexer errors, `Indent.lexErrors`
* 2 the same as 0 with the widths written into the synthetic tokens (`I<to>`, `D<from>`; read off the stacks
    `Indent.handleNewline` returns)
* 3 per NEWLINE token `1` if the line behind it is not a noise line
* 4 the `LineInfo`s `Indent.scan` reads off the text (the Go side prints the generator's bookkeeping)
* 5 nesting skeleton `BodyParse.parseLines` computes for every node body, or `ERR`

Profile `bytes`: `(case tokens <id> bytes (b ...))`, observation 0: the constant `BALANCED` (`indent_balanced`: the
model's token sequence is balanced for every input, so this is what the model predicts for the implementation).
-/
namespace Ysgo.Drv.Tokens
open Ysgo Ysgo.Indent

def tokChar : Tok → String
  | .nl => "N" | .indent => "I" | .dedent => "D" | .eof => "E"

/-- tokens with widths: INDENT to the new top, DEDENT from each popped level -/
def annotate : List Nat → List LineInfo → List String
  | st, [] => st.map (fun w => s!"D{w}") ++ ["E"]
  | st, li :: ls =>
    let r := handleNewline st li
    let popped := st.take (st.length - r.1.length)
    let here := r.2.map fun t =>
      match t with
      | .nl => "N"
      | .indent => s!"I{r.1.headD 0}"
      | .dedent => "D"
      | .eof => "E"
    -- the k-th DEDENT pops the k-th element
    let rec fill : List String → List Nat → List String
      | "D" :: ts, w :: ws => s!"D{w}" :: fill ts ws
      | t :: ts, ws => t :: fill ts ws
      | [], _ => []
    fill here popped ++ annotate r.1 ls

def b01 (b : Bool) : String := if b then "1" else "0"

open BodyParse in
def plineOf (s : S) : Option PLine :=
  match s.head, s.args with
  | "noise", [w] => some (.noise w.toNat)
  | "line", [w, n] => some (.real w.toNat (.line n.toNat))
  | "arrow", [w, n] => some (.real w.toNat (.arrow n.toNat))
  | "single", [w, n] => some (.real w.toNat (.single n.toNat))
  | "if", [w] => some (.real w.toNat .ifT)
  | "elseif", [w] => some (.real w.toNat .elseifT)
  | "else", [w] => some (.real w.toNat .elseT)
  | "endif", [w] => some (.real w.toNat .endifT)
  | "end", [w] => some (.real w.toNat .bodyEnd)
  | _, _ => none

open BodyParse in
mutual
partial def skStmt : Stmt → String
  | .line n => s!"L{n}"
  | .single n => s!"S{n}"
  | .opts os => "O[" ++ String.join (os.map fun o => s!"{o.1}({skStmts o.2})") ++ "]"
  | .ifs f es el =>
    "I[" ++ String.join ((f :: es ++ (match el with | some b => [b] | none => [])).map fun b => s!"({skStmts b})") ++ "]"
partial def skStmts (ss : List Stmt) : String := Obs.join " " (ss.map skStmt)
end

end Ysgo.Drv.Tokens

namespace Ysgo.Drv
open Ysgo Ysgo.Indent Ysgo.Drv.Tokens

def tokensCase (c : S) : List String :=
  match c.items with
  | _ :: _ :: _ :: .atom "bytes" :: _ => ["BALANCED"]
  | _ :: _ :: _ :: .atom "layout" :: _ =>
    match c.find "text" with
    | some t =>
      let text := (t.args.headD (.list [])).chars
      let infos := scan text
      let toks := lex infos
      let skeleton : String :=
        -- a reported lexer error is a syntax error: the load is refused
        if lexErrors infos > 0 then "ERR" else
        match (c.find "nodes").map S.args with
        | none => "BADCASE"
        | some nodes =>
          let parsed := nodes.map fun node =>
            match node.args.mapM plineOf with
            | none => none
            | some ps => BodyParse.parseLines ps
          if parsed.all Option.isSome then
            String.join (parsed.map fun p => "{" ++ skStmts (p.getD []) ++ "}")
          else "ERR"
      [ String.join (toks.map tokChar),
        toString (lexErrors infos),
        Obs.join " " (annotate [] infos),
        String.join (infos.map fun li => b01 (!li.noise)),
        String.join (infos.map fun li => s!"{li.width},{b01 li.mixed},{b01 li.noise} "),
        skeleton ]
    | none => ["BADCASE"]
  | _ => ["BADCASE"]

end Ysgo.Drv
