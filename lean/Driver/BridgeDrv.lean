import Ysgo.Sexp
import Ysgo.Obs
import Ysgo.Model.Bridge
/-! driver for the `bridge` stream (C16): decodes the signature, registers and invokes with the model of the bridge -/
namespace Ysgo.Drv.BridgeD
open Ysgo Ysgo.Bridge

def bridgeType? (a : String) : Option GoType :=
  match a with
  | "int" => some (.basic .int false) | "int8" => some (.basic .int8 false) | "int16" => some (.basic .int16 false)
  | "int32" => some (.basic .int32 false) | "int64" => some (.basic .int64 false) | "uint" => some (.basic .uint false)
  | "float32" => some (.basic .float32 false) | "float64" => some (.basic .float64 false)
  | "bool" => some (.basic .bool false) | "string" => some (.basic .string false)
  | "Nint" => some (.basic .int true) | "Nint8" => some (.basic .int8 true) | "Nint16" => some (.basic .int16 true)
  | "Nint32" => some (.basic .int32 true) | "Nint64" => some (.basic .int64 true) | "Nuint" => some (.basic .uint true)
  | "Nfloat32" => some (.basic .float32 true) | "Nfloat64" => some (.basic .float64 true)
  | "Nbool" => some (.basic .bool true) | "Nstring" => some (.basic .string true)
  | "error" => some (.error false) | "Nerror" => some (.error true)
  | "errstr" => some .errStr | "errptr" => some .errPtr
  | "chan" => some (.chanErr .both false true) | "rchan" => some (.chanErr .recv false true)
  | "schan" => some (.chanErr .send false true) | "Nchan" => some (.chanErr .both true true)
  | "Nrchan" => some (.chanErr .recv true true) | "chanX" => some (.chanErr .both false false)
  | "struct" => some (.other .struct) | "slice" => some (.other .slice) | "ptr" => some (.other .ptr)
  | "any" => some (.other .any) | "func" => some (.other .func) | "map" => some (.other .map)
  | _ => none

def kindAtom : Kind → String
  | .int => "int" | .int8 => "int8" | .int16 => "int16" | .int32 => "int32" | .int64 => "int64" | .uint => "uint"
  | .float32 => "float32" | .float64 => "float64" | .bool => "bool" | .string => "string"

def bridgeTypeAtom : GoType → String
  | .basic k named => (if named then "N" else "") ++ kindAtom k
  | .error named => if named then "Nerror" else "error"
  | .errStr => "errstr" | .errPtr => "errptr"
  | .chanErr .both false true => "chan" | .chanErr .recv false true => "rchan" | .chanErr .send false true => "schan"
  | .chanErr .both true true => "Nchan" | .chanErr .recv true true => "Nrchan" | .chanErr .both false false => "chanX"
  | .chanErr _ _ _ => "chan?"
  | .other .struct => "struct" | .other .slice => "slice" | .other .ptr => "ptr" | .other .any => "any"
  | .other .func => "func" | .other .map => "map"

def obsNum (x : F64) : String := if x.isNaN then "N:nan" else "N:" ++ toString x.bits

def obsValue : Value → String
  | .num x => obsNum x
  | .bool b => "B:" ++ toString b
  | .str s => "S:" ++ Obs.esc s

def bridgeGoVal (g : GoVal) : String :=
  bridgeTypeAtom g.ty ++ ":" ++
    (match g.payload with
     | .int i => "i" ++ F64.itoa i
     | .float x => obsNum x
     | .bool b => "B:" ++ toString b
     | .str s => "S:" ++ Obs.esc s
     | _ => "?")

def decodeYarnValue (s : S) : Option Value :=
  match s.items with
  | [.atom "num", b] => some (.num ⟨b.toNat⟩)
  | [.atom "bool", b] => some (.bool (b.atomStr == "true"))
  | [.atom "str", t] => some (.str t.str)
  | _ => none

def decodeRet (t : GoType) (spec : S) : Payload :=
  match spec with
  | .atom "nil" => (match t with | .errPtr => .ptr false | _ => .iface false)
  | .atom "err" => (match t with | .errPtr => .ptr true | _ => .iface true)
  | .atom _ => .zero
  | .list [.atom "i", v] => .int v.toInt
  | .list [.atom "f", b] => .float ⟨b.toNat⟩
  | .list [.atom "b", b] => .bool (b.atomStr == "true")
  | .list [.atom "s", t] => .str t.str
  | .list [.atom "ch", .atom "nil"] => .chan .nil
  | .list [.atom "ch", .atom "ok"] => .chan (.ready false)
  | .list [.atom "ch", .atom "err"] => .chan (.ready true)
  | .list [.atom "ch", .atom "empty"] => .chan .empty
  | _ => .zero

def receivedStr (s : Sig) (r : Option (List GoVal)) : String :=
  match r with
  | none => "-"
  | some ins =>
    let fixed := (ins.take s.params.length).map bridgeGoVal
    let tail := (ins.drop s.params.length).map bridgeGoVal
    "(" ++ Obs.join "," fixed ++ (if s.variadic.isSome then "|" ++ Obs.join "," tail else "") ++ ")"

def optAll {α} : List (Option α) → Option (List α)
  | [] => some []
  | x :: xs => match x, optAll xs with | some a, some as => some (a :: as) | _, _ => none

def decodeSig (sig : S) : Option Sig := do
  let params ← optAll ((← sig.find "params").args.map fun a => bridgeType? a.atomStr)
  let results ← optAll ((← sig.find "results").args.map fun a => bridgeType? a.atomStr)
  let v := ((← sig.find "variadic").args.getD 0 (.atom "none")).atomStr
  let variadic ← if v = "none" then some none else (bridgeType? v).map some
  pure { params, variadic, results }

def decodeHostValue (c : S) : Option HostValue := do
  let val ← (← c.find "val").args.head?
  match val with
  | .atom "nil" => pure .nilIface
  | .atom "func" => pure (.fn (← decodeSig (← c.find "sig")))
  | .atom "nilfunc" => pure (.nilFn (← decodeSig (← c.find "sig")))
  | .list [.atom "nonfunc", .atom w] =>
    (match w with
     | "nilerror" => pure .nilIface
     | "int" => pure (.notFunc (.basic .int false)) | "string" => pure (.notFunc (.basic .string false))
     | "bool" => pure (.notFunc (.basic .bool false)) | "struct" => pure (.notFunc (.other .struct))
     | "slice" => pure (.notFunc (.other .slice)) | "nilptr" => pure (.notFunc (.other .ptr))
     | "funcptr" => pure (.notFunc (.other .ptr)) | "chan" => pure (.notFunc (.chanErr .both false true))
     | "nilmap" => pure (.notFunc (.other .map))
     | _ => none)
  | _ => none

def run (c : S) : List String :=
  match decodeHostValue c, (c.find "kind").bind (·.args.head?), (c.find "args") with
  | some hv, some (.atom kind), some argsS =>
    match optAll (argsS.args.map decodeYarnValue) with
    | none => ["BADCASE"]
    | some args =>
      let sig : Sig := match hv with | .fn s | .nilFn s => s | _ => { params := [] }
      let rets := ((c.find "ret").map (·.args)).getD []
      let payloads := (sig.results.zip rets).map fun (t, spec) => decodeRet t spec
      let host : Host := fun _ => payloads
      let isNilFn := match hv with | .nilFn _ => true | _ => false
      let spec := if isNilFn then ["SPEC REG ERR"] else []
      if kind = "fn" then
        match registerFunction hv with
        | .err _ => ["REG ERR"]
        | .panic _ => ["REG PANIC"]
        | .ok b =>
          let run := invokeFn b host args
          let calls := receivedStr sig run.received
          let callLine := match run.out with
            | .ok _ => "CALL L calls=" ++ calls
            | .err _ => "CALL ERR calls=" ++ calls
            | .panic _ => "CALL PANIC calls=" ++ calls
          let setLine := match run.out with
            | .ok (some v) => "SET L r=" ++ obsValue v ++ " calls=" ++ calls
            | .ok none => "SET ERR r=unset calls=" ++ calls
            | .err _ => "SET ERR r=unset calls=" ++ calls
            | .panic _ => "SET PANIC r=unset calls=" ++ calls
          ["REG OK", callLine, setLine] ++ spec
      else
        match registerCommand hv with
        | .err _ => ["REG ERR"]
        | .panic _ => ["REG PANIC"]
        | .ok b =>
          if isNilFn && b.ret != .errorChanReturn then ["REG OK", "CMD UNSAFE-SKIP"] ++ spec
          else
            let run := invokeCmd b host args
            let cls := match run.out with
              | .done => "L" | .failed => "ERR" | .pending => "WAIT" | .unknown => "ERR" | .panicked => "PANIC"
            ["REG OK", "CMD " ++ cls ++ " calls=" ++ receivedStr sig run.received] ++ spec
  | _, _, _ => ["BADCASE"]

end Ysgo.Drv.BridgeD

/-- the model's observations for one case of the `bridge` stream -/
def Ysgo.Drv.bridgeCase (c : Ysgo.S) : List String := Ysgo.Drv.BridgeD.run c
