import Ysgo.Sexp
import Ysgo.Model.Runner
/-! decoding of programs from the case S-expressions (the format printed by harness/ast and verifhook.DumpDialogue) -/
namespace Ysgo.Drv
open Ysgo

def binop : String → BinOp
  | "mul" => .mul | "div" => .div | "mod" => .mod | "add" => .add | "sub" => .sub | "le" => .le | "ge" => .ge
  | "lt" => .lt | "gt" => .gt | "eq" => .eq | "ne" => .ne | "and" => .and | "or" => .or | _ => .xor

partial def expr : S → Expr
  | .list [.atom "num", n] => .lit (.num ⟨n.toNat⟩)
  | .list [.atom "bool", .atom b] => .lit (.bool (b == "true"))
  | .list [.atom "str", s] => .lit (.str s.str)
  | .list [.atom "var", s] => .var s.str
  | .list (.atom "fn" :: f :: args) => .call f.str (args.map expr)
  | .list [.atom "neg", e] => .neg (expr e)
  | .list [.atom "not", e] => .not (expr e)
  | .list [.atom "bin", .atom o, l, r] => .bin (binop o) (expr l) (expr r)
  | _ => .null

def value : S → Value
  | .list [.atom "num", n] => .num ⟨n.toNat⟩
  | .list [.atom "bool", .atom b] => .bool (b == "true")
  | .list [.atom "str", s] => .str s.str
  | _ => .str ""

def aop : String → AssignOp
  | "set" => .set | "mul" => .mul | "div" => .div | "mod" => .mod | "add" => .add | _ => .sub

def lineSpec (l : S) : LineSpec :=
  let els := (l.find "els").map S.args |>.getD []
  let cond := match l.find "cond" with
    | some (.list [_, .list [.atom "none"]]) => none
    | some (.list [_, c]) => some (expr c)
    | _ => none
  let tags := ((l.find "tags").map S.args |>.getD []).map S.str
  { elems := els.map fun
      | .list [.atom "t", s] => .inl s.str
      | .list [.atom "e", e] => .inr (expr e)
      | _ => .inl "",
    cond := cond, tags := tags }

partial def stmt (s : S) : Stmt :=
  match s with
  | .list (.atom "line" :: _) => .line (lineSpec s)
  | .list (.atom "opts" :: os) => .opts (os.map fun
      | .list [.atom "opt", l, .list (.atom "stmts" :: b)] => (lineSpec l, b.map stmt)
      | _ => ({ elems := [] }, []))
  | .list [.atom "set", v, .atom o, e] => .set v.str (aop o) (expr e)
  | .list [.atom "declare", v, e] => .set v.str .set (expr e)
  | .list [.atom "jump", e] => .jump (expr e)
  | .list (.atom "if" :: cs) => .ifs (cs.map fun
      | .list [.atom "clause", c, .list (.atom "stmts" :: b)] => (expr c, b.map stmt)
      | _ => (.null, []))
  | .list (.atom "cmd" :: es) => .cmd (es.map expr)
  | .list (.atom "call" :: f :: args) => .call f.str (args.map expr)
  | _ => .empty

def program : S → Program
  | .list (.atom "prog" :: ns) => ns.map fun
    | .list [.atom "node", t, tr, .list (.atom "stmts" :: b)] => { title := t.str, tracking := tr.str, body := b.map stmt }
    | _ => { title := "", body := [] }
  | _ => []

end Ysgo.Drv
