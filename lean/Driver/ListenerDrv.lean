import Ysgo.Sexp
import Ysgo.Model.Listener
import Ysgo.Spec.Translate
/-!
Stream `listener`, second pass: `(case listener <id> (tree <dump of verifhook.DumpParseTree>))`.

* line 0 `TREE <the decoded tree printed again>`: equal to the implementation's line iff every context type and token type
  of the tree is known to the model (an unknown one is printed as `?`);
* line 1 `AST <showDialogue (build t)>` — what the listener model builds, in the format of `verifhook.DumpDialogue`
  without the `(headers …)` elements — or `PANIC` / `UNMODELLED`;
* line 2 `SPEC same` iff the structural translation `Translate.translate t` is defined and prints the same AST
  (`SPEC none` when neither the model nor the translation yields a tree, `SPEC diff` otherwise).

`(case listener <id> (loaderr))` and `(case listener <id> (panic))` (the implementation refused the text before walking):
`LOADERR` / `PANIC`, then `ERR` / `PANIC`, then `SPEC same`, like the implementation prints them.
-/
namespace Ysgo.Drv
open Ysgo Ysgo.Listener

/-- `(R <Context> child…)`, `(T <TOKEN> (s cp…))`, `(ERR)` -/
partial def parseTree : S → PT
  | .list (.atom "R" :: .atom name :: children) => .rule (Ctx.ofName name) (children.map parseTree)
  | .list [.atom "T", .atom name, text] => .tok (Tk.ofName name) text.str
  | _ => .err

def ctxNames : List String :=
  ["Dialogue", "File_hashtag", "Node", "Header", "Body", "Statement", "Line_statement", "Line_formatted_text", "Hashtag",
   "Line_condition", "ExpParens", "ExpNegative", "ExpNot", "ExpMultDivMod", "ExpAddSub", "ExpComparison", "ExpEquality",
   "ExpAndOrXor", "ExpValue", "ValueNumber", "ValueTrue", "ValueFalse", "ValueVar", "ValueString", "ValueNull", "ValueFunc",
   "Variable", "Function_call", "If_statement", "If_clause", "Else_if_clause", "Else_clause", "Set_statement",
   "Call_statement", "Command_statement", "Command_formatted_text", "Shortcut_option_statement", "Shortcut_option",
   "Declare_statement", "JumpToNodeName", "JumpToExpression"]

def tkNames : List String :=
  ["INDENT", "DEDENT", "BLANK_LINE_FOLLOWING_OPTION", "NEWLINE", "ID", "BODY_START", "HEADER_DELIMITER", "HASHTAG",
   "REST_OF_LINE", "BODY_END", "SHORTCUT_ARROW", "COMMAND_START", "EXPRESSION_START", "TEXT", "HASHTAG_TEXT",
   "KEYWORD_TRUE", "KEYWORD_FALSE", "KEYWORD_NULL", "OPERATOR_ASSIGNMENT", "OPERATOR_LOGICAL_LESS_THAN_EQUALS",
   "OPERATOR_LOGICAL_GREATER_THAN_EQUALS", "OPERATOR_LOGICAL_EQUALS", "OPERATOR_LOGICAL_LESS", "OPERATOR_LOGICAL_GREATER",
   "OPERATOR_LOGICAL_NOT_EQUALS", "OPERATOR_LOGICAL_AND", "OPERATOR_LOGICAL_OR", "OPERATOR_LOGICAL_XOR",
   "OPERATOR_LOGICAL_NOT", "OPERATOR_MATHS_ADDITION_EQUALS", "OPERATOR_MATHS_SUBTRACTION_EQUALS",
   "OPERATOR_MATHS_MULTIPLICATION_EQUALS", "OPERATOR_MATHS_MODULUS_EQUALS", "OPERATOR_MATHS_DIVISION_EQUALS",
   "OPERATOR_MATHS_ADDITION", "OPERATOR_MATHS_SUBTRACTION", "OPERATOR_MATHS_MULTIPLICATION", "OPERATOR_MATHS_DIVISION",
   "OPERATOR_MATHS_MODULUS", "LPAREN", "RPAREN", "COMMA", "EXPRESSION_AS", "STRING", "FUNC_ID", "EXPRESSION_END", "VAR_ID",
   "NUMBER", "COMMAND_IF", "COMMAND_ELSEIF", "COMMAND_ELSE", "COMMAND_SET", "COMMAND_ENDIF", "COMMAND_CALL",
   "COMMAND_DECLARE", "COMMAND_JUMP", "COMMAND_END", "COMMAND_TEXT_END", "COMMAND_EXPRESSION_START", "COMMAND_TEXT"]

/-- the name whose decoding is `c` -/
def ctxName (c : Ctx) : String := (ctxNames.find? fun n => Ctx.ofName n == c).getD "?"
def tkName (t : Tk) : String := (tkNames.find? fun n => Tk.ofName n == t).getD "?"

partial def showTree : PT → String
  | .rule c cs => "(R " ++ ctxName c ++ String.join (cs.map fun t => " " ++ showTree t) ++ ")"
  | .tok t s => "(T " ++ tkName t ++ " " ++ showStr s ++ ")"
  | .err => "(ERR)"

def listenerCase (c : S) : List String :=
  match c.find "tree" with
  | some (.list [_, t]) =>
    let t := parseTree t
    let spec := (Translate.translate t).map showDialogue
    let tree := "TREE " ++ showTree t
    (match build t with
     | .ok d =>
       let a := showDialogue d
       [tree, "AST " ++ a, if spec == some a then "SPEC same" else "SPEC diff"]
     | .panic => [tree, "PANIC", if spec.isNone then "SPEC none" else "SPEC diff"]
     | .unmodelled => [tree, "UNMODELLED", if spec.isNone then "SPEC none" else "SPEC diff"])
  | _ =>
    if (c.find "loaderr").isSome then ["LOADERR", "ERR", "SPEC same"]
    else if (c.find "panic").isSome then ["PANIC", "PANIC", "SPEC same"]
    else ["BADCASE"]

end Ysgo.Drv
