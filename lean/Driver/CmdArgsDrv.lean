import Ysgo.Sexp
import Ysgo.Obs
import Ysgo.Model.CmdArgs
/-! driver for the `cmdargs` stream (C17): from the written pieces of a command to the expected dispatch -/
namespace Ysgo.Drv.CmdArgsD
open Ysgo Ysgo.CmdArgs

inductive Piece where
  | t (s : List Char)
  | e (src : List Char) (v : Value)

def decodeValue (s : S) : Value :=
  match s.items with
  | [.atom "num", b] => .num ⟨b.toNat⟩
  | [.atom "bool", b] => .bool (b.atomStr == "true")
  | [.atom "str", t] => .str t.str
  | _ => .str "?"

def decodePiece (p : S) : Option Piece :=
  match p.items with
  | [.atom "t", s] => some (.t s.chars)
  | [.atom "e", src, v] => some (.e src.chars (decodeValue v))
  | _ => none

def showNum (x : F64) : String := if x.isNaN then "N:nan" else "N:" ++ toString x.bits
def showVal : Value → String
  | .num x => showNum x
  | .bool b => "B:" ++ toString b
  | .str s => "S:" ++ Obs.esc s

def headName : Head → String
  | .kw .if_ => "COMMAND_IF" | .kw .elseif => "COMMAND_ELSEIF" | .kw .else_ => "COMMAND_ELSE" | .kw .set => "COMMAND_SET"
  | .kw .endif => "COMMAND_ENDIF" | .kw .call => "COMMAND_CALL" | .kw .declare => "COMMAND_DECLARE"
  | .kw .jump => "COMMAND_JUMP" | .kw .enum => "COMMAND_ENUM" | .kw .case_ => "COMMAND_CASE"
  | .kw .endenum => "COMMAND_ENDENUM" | .kw .local_ => "COMMAND_LOCAL" | .cmdEnd => "COMMAND_END"
  | .newline => "COMMAND_NEWLINE" | .text => "COMMAND_TEXT" | .eof => "EOF"

def blank (c : Char) : Bool := c = ' ' || c = '\t'

/-- the raw text between `<<` and `>>` -/
def rawOf : List Piece → List Char
  | [] => []
  | .t s :: r => s ++ rawOf r
  | .e src _ :: r => '{' :: src ++ '}' :: rawOf r

/-- COMMAND_WS is skipped before the first token: drop leading blanks and tabs -/
def stripLead : List Piece → List Piece
  | .t s :: rest =>
    let s' := s.dropWhile blank
    if s'.isEmpty then stripLead rest else .t s' :: rest
  | ps => ps

/-- the elements the listener collects for a generic command: the first character is COMMAND_ARBITRARY (even when it is
the brace of an expression, which then is plain text), the rest is lexed in CommandTextMode -/
def elemsOf (ps : List Piece) : List (Elem Value) :=
  let ps := match stripLead ps with
    | .e src _ :: rest => Piece.t ('{' :: src ++ ['}']) :: rest
    | ps => ps
  let els : List (Elem Value) := ps.filterMap fun
    | .t s => if s.isEmpty then none else some (.text s)
    | .e _ v => some (.expr v)
  match els with
  | .text (c :: c' :: cs) :: rest => .text [c] :: .text (c' :: cs) :: rest
  | els => els

def argValue : Arg Value → Value
  | .word v => v
  | .expr v => v
  | .hole => .str "?hole"

/-- the observation of an ordinary command: the handler invocation and the class of the first `Next` -/
def dispatchLine (reg : List String) (ps : List Piece) : String :=
  match dispatchOf ((rearrange (elemsOf ps)).map argValue) with
  | .missingName => "RUN - ERR"
  | .nameNotString => "RUN - ERR"
  | .stop => "RUN - END"
  | .call name args =>
    if reg.contains name then "RUN cmd:" ++ Obs.esc name ++ "(" ++ Obs.join "," (args.map showVal) ++ ") L"
    else "RUN - ERR"

/-- finding F27: the name starts with `else`, `endif` or `endenum` and goes on with a character that is neither white
space nor the end of the command (nor an expression) -/
def isF27 (k : Keyword) (t : List Char) : Bool :=
  let sp : List Char := match k with
    | .else_ => "else".toList | .endif => "endif".toList | .endenum => "endenum".toList | _ => []
  !sp.isEmpty && sp.isPrefixOf t && (match t.drop sp.length with
    | c :: _ => !isSpaceGo c && c != '>' && c != '{'
    | [] => false)

def dumpValue : Value → String
  | .num x => "(num " ++ toString x.bits ++ ")"
  | .bool b => "(bool " ++ toString b ++ ")"
  | .str s => "(str (s" ++ String.join (s.toList.map fun c => " " ++ toString c.toNat) ++ "))"

def dumpArg : Arg Unit → String
  | .word v => dumpValue v
  | _ => "(hole)"

def run (c : S) : List String :=
  match c.find "rearrange" with
  | some r =>
    let els : List (Elem Unit) := r.args.map fun e => if e.chars.isEmpty then .expr () else .text e.chars
    ["(cmd" ++ String.join ((rearrange els).map fun a => " " ++ dumpArg a) ++ ")"]
  | none =>
    match c.find "pieces" with
    | none => ["BADCASE"]
    | some psS =>
      let ps := psS.args.filterMap decodePiece
      let reg := ((c.find "reg").map (·.args.map S.str)).getD []
      let bad := ps.any fun
        | .t s => s.any fun ch => ch = '>' || ch = '{' || ch = '\n' || ch = '\r'
        | .e src _ => src.any fun ch => ch = '>' || ch = '{' || ch = '}' || ch = '\n' || ch = '\r'
      if bad then ["UNMODELLED"] else
      let raw := rawOf ps
      let head := cmdHead (raw ++ ">>\n".toList)
      let line1 := match head with
        | .text => dispatchLine reg ps
        | _ => "NOCALL"
      let spec := match head with
        | .kw k => if isF27 k (raw.dropWhile blank) then dispatchLine reg ps else line1
        | _ => line1
      ["HEAD " ++ headName head, line1, "SPEC " ++ spec]

end Ysgo.Drv.CmdArgsD

/-- the model's observations for one case of the `cmdargs` stream -/
def Ysgo.Drv.cmdargsCase (c : Ysgo.S) : List String := Ysgo.Drv.CmdArgsD.run c
