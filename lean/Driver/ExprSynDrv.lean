import Ysgo.Sexp
import Ysgo.Obs
import Ysgo.Model.Fmt
import Ysgo.Model.ExprSyntax
/-! driver for the `exprsyn` stream: an expression text is lexed by `ExprSyntax.lexTo` and parsed by
    `ExprSyntax.parseExpr`; the tree is printed in the form of `verifhook.DumpDialogue`.
    Case kind `table`: the whole spelling table `ExprSyntax.spell` (the Go side prints the lexer grammar's table, each
    entry checked against the running lexer). -/
namespace Ysgo.Drv
open Ysgo Ysgo.ExprSyntax

/-- `(s cp cp ...)` -/
def dumpStr (s : List Char) : String :=
  "(s" ++ String.join (s.map fun c => " " ++ toString c.toNat) ++ ")"

/-- the bits of a NUMBER literal as the listener reads it: `number, _ := strconv.ParseFloat(text, 64)` — the error is
    dropped, and the only error a NUMBER token (digits, optionally `.` digits) can produce is ErrRange, for which
    ParseFloat returns +Inf (`none` = outside the modelled domain of ParseFloat; cannot happen for NUMBER tokens) -/
def numBits (t : List Char) : Option Nat :=
  match F64.parseFloat (String.ofList t) with
  | .val x => some x.bits
  | .err => some (F64.inf false).bits
  | .unmodelled => none

mutual
/-- the expression in the dump's form; `none` when a number literal is outside the modelled domain of ParseFloat -/
def dumpExpr : ExprSyntax.Expr → Option String
  | .num t => (numBits t).map fun b => "(num " ++ toString b ++ ")"
  | .bool b => some ("(bool " ++ toString b ++ ")")
  | .str s => some ("(str " ++ dumpStr s ++ ")")
  | .var n => some ("(var " ++ dumpStr n ++ ")")
  | .null => some "(null)"
  | .fn f as => (dumpArgs as).map fun a => "(fn " ++ dumpStr f ++ a ++ ")"
  | .neg e => (dumpExpr e).map fun s => "(neg " ++ s ++ ")"
  | .not e => (dumpExpr e).map fun s => "(not " ++ s ++ ")"
  | .bin o l r =>
    match dumpExpr l, dumpExpr r with
    | some a, some b => some ("(bin " ++ o.name ++ " " ++ a ++ " " ++ b ++ ")")
    | _, _ => none
def dumpArgs : List ExprSyntax.Expr → Option String
  | [] => some ""
  | a :: as =>
    match dumpExpr a, dumpArgs as with
    | some x, some y => some (" " ++ x ++ y)
    | _, _ => none
end

/-- print an S-expression the way the Go side's `String` method does -/
partial def sToString : S → String
  | .atom a => a
  | .list l => "(" ++ " ".intercalate (l.map sToString) ++ ")"

/-- the model's spelling table (`fixedToks` × `spell`) as sorted `TYPE=spelling` entries -/
def spellingTable : String :=
  let entries := fixedToks.flatMap fun t => (spell t).map fun s => t.typeName ++ "=" ++ String.ofList s
  " ".intercalate (Obs.sortBy Obs.strLt entries)

def exprsynCase (c : S) : List String :=
  if ((c.find "kind").map fun k => (k.args.headD (.atom "")).atomStr) = some "table" then [spellingTable] else
  match c.find "text", c.find "expect" with
  | some t, some ex =>
    let cs := (t.args.headD (.list [])).chars
    let expect := ex.args.headD (.list [])
    match lexTo (cs.length + 1) cs with
    | some (ts, .eof, _) =>
      let names := " ".intercalate (ts.map Tok.typeName ++ ["/EXPRESSION_END"])
      (match parseExpr ts with
       | none => ["LOADERR", names, if expect.head = "none" then "-" else "differs"]
       | some e =>
         match dumpExpr e with
         | none => ["UNMODELLED", "UNMODELLED", "UNMODELLED"]
         | some d => [d, names, if expect.head = "none" then "-" else if d = sToString expect then "same" else "differs"])
    | some (_, _, _) => ["UNMODELLED", "UNMODELLED", "UNMODELLED"]    -- a `}` or `>>` inside the text: not one expression
    | none => ["LOADERR", "LEXERR", if expect.head = "none" then "-" else "differs"]
  | _, _ => ["BADCASE"]

end Ysgo.Drv
