import Ysgo.Sexp
import Ysgo.Model.Command
/-! driver for the `wait` stream: the duration arithmetic of `<<wait n>>`; the timing and handler-shape kinds are
predicates evaluated by the harness on the real clock and real goroutines, whose only acceptable answer is `ok` -/
namespace Ysgo.Drv
open Ysgo

def waitCase (c : S) : List String :=
  match c.items with
  | _ :: _ :: _ :: .atom "duration" :: x :: _ => [toString (Command.waitNanos ⟨x.toNat⟩)]
  | _ :: _ :: _ :: .atom "timing" :: _ => ["TIMING ok"]
  | _ :: _ :: _ :: .atom "shape" :: _ => ["SHAPE ok"]
  | _ :: _ :: _ :: .atom "abandon" :: _ => ["ABANDON ok"]
  | _ :: _ :: _ :: .atom "cross" :: _ => ["CROSS ok"]
  | _ :: _ :: _ :: .atom "crowd" :: _ => ["CROWD ok"]
  | _ => ["BADKIND"]

end Ysgo.Drv
