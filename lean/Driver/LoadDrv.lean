import Ysgo.Sexp
import Ysgo.Model.Load
/-! driver for the `load` stream: the load decision on the oracle values the harness observed -/
namespace Ysgo.Drv
open Ysgo Ysgo.Load

def loadCase (c : S) : List String :=
  match c.find "oracle", c.find "seed" with
  | some o, some sd =>
    let ses := ((o.find "se").map S.args |>.getD []).map S.toNat
    let nodes := ((o.find "nodes").map S.args |>.getD []).map S.toNat
    let rs : List ReaderOracle := (ses.zip nodes).map fun (a, b) => ⟨a, b⟩
    let seed := (sd.args.headD (.atom "")).str
    match load rs seed with
    | .runner => ["RUNNER"]
    | .err => ["ERR"]
    | .panic => ["PANIC"]
  | _, _ => ["UNMODELLED"]

end Ysgo.Drv
