import Ysgo.Sexp
import Ysgo.Obs
import Ysgo.Model.Queue
import Ysgo.Model.Stack
/-!
Driver for the `containers` stream (C20): an operation sequence on the queue or the stack model.

```
(case containers <id> queue (ops (enq 5) (deq) (peek) (size) ...))
(case containers <id> stack (ops (push 1) (pushall 1 2 3) (pop) (peek) (size) (clear) ...))
```

Observation 0: for every operation `<result>/<size afterwards>` — `Queue.run` / `Stack.run`, the functions
`queue_refines_fifo` / `stack_refines_lifo` are about. Observation 1 (queue only): the raw state `cap,first,next`
behind every operation (`Queue.runStates`; informational, it depends on the initial capacity and growth policy).
-/
namespace Ysgo.Drv.Containers
open Ysgo

def queueOps (ops : List S) : Option (List (Queue.Op Int)) :=
  ops.mapM fun o =>
    match o.head, o.args with
    | "enq", [v] => some (.enq v.toInt)
    | "deq", [] => some .deq
    | "peek", [] => some .peek
    | "size", [] => some .size
    | _, _ => none

def stackOps (ops : List S) : Option (List (Stack.Op Int)) :=
  ops.mapM fun o =>
    match o.head, o.args with
    | "push", [v] => some (.push v.toInt)
    | "pushall", vs => some (.pushAll (vs.map S.toInt))
    | "pop", [] => some .pop
    | "peek", [] => some .peek
    | "size", [] => some .size
    | "clear", [] => some .clear
    | _, _ => none

def queueObs : Queue.Obs Int × Nat → String
  | (.done, n) => s!"ok/{n}"
  | (.val x, n) => s!"{x}/{n}"
  | (.size k, n) => s!"{k}/{n}"
  | (.panic, n) => s!"panic/{n}"

def stackObs : Stack.Obs Int × Nat → String
  | (.done, n) => s!"ok/{n}"
  | (.val x, n) => s!"{x}/{n}"
  | (.size k, n) => s!"{k}/{n}"
  | (.panic, n) => s!"panic/{n}"

end Ysgo.Drv.Containers

namespace Ysgo.Drv
open Ysgo Ysgo.Drv.Containers

def containersCase (c : S) : List String :=
  match c.items with
  | _ :: _ :: _ :: .atom kind :: _ =>
    let ops := (c.find "ops").map S.args |>.getD []
    if kind = "queue" then
      match queueOps ops with
      | none => ["UNMODELLED"]
      | some ops =>
        [ Obs.join " " ((Queue.run Queue.empty ops).map queueObs),
          Obs.join " " ((Queue.runStates Queue.empty ops).map fun r =>
            s!"{Queue.cap r.2},{r.2.first},{r.2.next}") ]
    else if kind = "stack" then
      match stackOps ops with
      | none => ["UNMODELLED"]
      | some ops => [Obs.join " " ((Stack.run Stack.empty ops).map stackObs)]
    else ["BADCASE"]
  | _ => ["BADCASE"]

end Ysgo.Drv
