import Ysgo.Sexp
import Ysgo.Obs
import Ysgo.Model.Fmt
/-! driver for the `f64` stream: one floating point operation per case -/
namespace Ysgo.Drv
open Ysgo

def bitsOf (x : F64) : String := if x.isNaN then "nan" else toString x.bits

def i64OfU (u : Nat) : Int := if u ≥ P63 then (u : Int) - (P64 : Int) else u

def toInt32 (x : F64) : Int :=
  match F64.decode x with
  | .fin neg m e =>
    let i : Int := if e ≥ 0 then F64.numAt neg m e 0 else F64.truncInt neg m (-e).toNat
    if i ≥ 2147483648 ∨ i < -2147483648 then -2147483648 else i
  | _ => -2147483648

def f64Case (c : S) : List String :=
  match c.items with
  | _ :: _ :: _ :: .atom op :: rest =>
    if op = "parse" then
      match rest with
      | s :: _ => (match F64.parseFloat s.str with
          | .val x => [bitsOf x] | .err => ["err"] | .unmodelled => ["UNMODELLED"])
      | _ => ["BADCASE"]
    else
      let a : F64 := ⟨(rest.getD 0 (.atom "0")).toNat⟩
      let b : F64 := ⟨(rest.getD 1 (.atom "0")).toNat⟩
      match op with
      | "add" => [bitsOf (a.add b)] | "sub" => [bitsOf (a.sub b)] | "mul" => [bitsOf (a.mul b)]
      | "div" => [bitsOf (a.div b)] | "mod" => [bitsOf (a.fmod b)] | "neg" => [bitsOf a.neg]
      | "lt" => [toString (a.lt b)] | "le" => [toString (a.le b)] | "eq" => [toString (a.eq b)]
      | "floor" => [bitsOf a.floor] | "ceil" => [bitsOf a.ceil] | "trunc" => [bitsOf a.trunc] | "round" => [bitsOf a.round]
      | "toint" => [toString a.toInt64]
      | "toint32" => [toString (toInt32 a)]
      | "toint16" => [toString (F64.wrapInt 16 (toInt32 a))]
      | "toint8" => [toString (F64.wrapInt 8 (toInt32 a))]
      | "ofint" => [bitsOf (F64.ofInt (i64OfU a.bits))]
      | "pow10" => [bitsOf (F64.pow10 (i64OfU a.bits))]
      | "f32" => [bitsOf a.toF32]
      | "fmt" => [Obs.esc a.fmtG]
      | "display" => [Obs.esc a.display]
      | _ => ["BADOP"]
  | _ => ["BADCASE"]

end Ysgo.Drv
