import Ysgo.Sexp
import Ysgo.Obs
import Ysgo.Model.Chan
/-! driver for the `chansched` stream: a script of command statements (handler shapes) and a schedule of events, run on
the channel-level model `Ysgo.Chan.Sys` (the one the theorems of `Props/C10Chan.lean` are about) under the configuration
the theorems assume (`Cfg` with its default values: per-call channels of capacity 1, select/default polls).

Events of the stream name a goroutine as (statement, k-th dispatch of it, j-th goroutine of that invocation), resolved
through the ghost dispatch log; a goroutine of the library cannot be held between the return of its handler and its
send, so its event fires both steps; `tick` is the clock: every sleeping `<<wait>>` goroutine wakes up and sends. -/
namespace Ysgo.Drv
open Ysgo Ysgo.Chan

namespace ChanSched

def val (s : S) : Val := s.atomStr == "fail"

def hostAct (s : S) : HostAct :=
  if s.head == "send" then .send (val (s.args.headD (.atom "ok"))) else .close

def hostRet (s : S) : Option HostChan :=
  match s with
  | .list (_ :: cap :: pre :: state :: procs) =>
    some { cap := cap.toNat, pre := pre.args.map val, closed := state.atomStr == "closed",
           procs := procs.map fun p => p.args.map hostAct }
  | _ => none

def stmt (s : S) : Option Stmt :=
  let ok (x : S) : Bool := x.atomStr == "ok"
  match s.items with
  | [.atom "line"] => some .line
  | [.atom "noret", c] => some (.cmd (.noRet (ok c)))
  | [.atom "err", c, r] => some (.cmd (.errRet (ok c) (val r)))
  | [.atom "chan", c, r] => some (.cmd (.chanRet (ok c) (hostRet r)))
  | [.atom "raw", r] => some (.cmd (.raw (hostRet r)))
  | [.atom "wait", c] => some (.cmd (.wait (ok c)))
  | [.atom "unknown"] => some (.cmd .unknown)
  | _ => none

def showObs : Obs → String
  | .waiting => "WAIT" | .err => "ERR" | .line i => s!"LINE {i}" | .ended => "END" | .blocked => "BLOCKED" | .crashed => "CRASH"

def showCalls (s : Sys) : String := Obs.join "," (s.calls.map toString)

/-- the goroutine an event of the stream names -/
def resolve (s : Sys) (i k j : Nat) : Option Nat :=
  match (s.disp.filter (fun d => d.stmt == i))[k]? with
  | some d => if j < d.ng then some (d.g0 + j) else none
  | none => none

def sleepers (s : Sys) : List Nat :=
  (List.range s.gs.length).filter fun g => match s.gs[g]? with | some (.sleeping _) => true | _ => false

/-- the model events one event of the stream stands for -/
def expand (s : Sys) (e : S) : List Ev :=
  match e with
  | .atom "next" => [.next]
  | .atom "restore" => [.restore]
  | .atom "tick" => (sleepers s).flatMap fun g => [.go g, .go g]
  | .list [.atom "go", i, k, j] =>
    (match resolve s i.toNat k.toNat j.toNat with
     | some g => (match s.gs[g]? with
        | some (.running _ _) | some (.sleeping _) => [.go g, .go g]
        | _ => [.go g])
     | none => [])
  | _ => []

def runSched (cfg : Cfg) (script : List Stmt) : Sys → List S → List String → Sys × List String
  | s, [], acc => (s, acc)
  | s, e :: es, acc =>
    let (s', os) := Sys.run cfg script s (expand s e)
    runSched cfg script s' es (acc ++ os.map fun o => showObs o ++ "|" ++ showCalls s')

end ChanSched

/-- an optional `(cfg hoisted lencheck ...)` runs the model under other facts than the code's (used to replay the
counterexample configurations of `Props/C10Chan.lean` against deliberately changed copies of the library) -/
def ChanSched.cfgOf (c : S) : Cfg :=
  match c.find "cfg" with
  | none => {}
  | some l =>
    let has (a : String) : Bool := l.args.any fun x => x.atomStr == a
    { perCall := !has "hoisted", cap := if has "cap0" then 0 else 1,
      pollNext := if has "lencheck" then .lenCheck else .selectDefault,
      restoreClears := !has "norestoreclear", pollClears := !has "nopollclear" }

def chanschedCase (c : S) : List String :=
  match c.find "script", c.find "sched" with
  | some sc, some sd =>
    let stmts := sc.args.map ChanSched.stmt
    if stmts.any Option.isNone then ["UNMODELLED"] else
    let script := stmts.filterMap id
    let (s, obs) := ChanSched.runSched (ChanSched.cfgOf c) script Sys.init sd.args []
    let parked := (s.gs.filter G.isParked).length
    obs ++ [if s.status = .crashed then "FINAL crashed" else s!"FINAL parked={parked}"]
  | _, _ => ["UNMODELLED"]

end Ysgo.Drv
