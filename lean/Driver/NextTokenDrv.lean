import Ysgo.Sexp
import Ysgo.Model.NextToken
/-!
Driver for the `nexttoken` stream (C20: what `IndentAwareLexer.NextToken` delivers, ordinary tokens included).

Cases are the `layout` cases of the `tokens` stream under another stream name:
`(case nexttoken <id> layout (class c) (wf b) (text (s ...)) (infos ...) (nodes ...))`.

The base tokens are read off the text with the state machine of `Indent.scanGo`: one `NEWLINE` per match of the rule
`NEWLINE: ( '\r'? '\n' | '\r' ) [ \t]*`, and one ordinary token for every maximal run of other characters (how many
tokens ANTLR makes of such a run is not modelled; the Go side collapses runs of ordinary tokens in the same way).
Observation 0: `NextToken.pullGo` on these base tokens, printed as `N`, `I<to>`, `D<from>`, `E`, `o`, then the reason
why the calls ended. `UNMODELLED` if the NEWLINE tokens read here differ from `Indent.scan` (never happens).
-/
namespace Ysgo.Drv.NextTokenDrv
open Ysgo Ysgo.Indent Ysgo.NextToken

/-- base tokens of a text; state as in `Indent.scanGo`, plus whether an ordinary run is open -/
def baseGo : Option (List Char × Bool) → Bool → List Char → List BaseTok
  | none, _, [] => []
  | some (t, _), _, [] => [.nl (infoOf t [])]
  | none, run, c :: cs =>
    match scanStart c with
    | some st => baseGo (some st) false cs
    | none => if run then baseGo none true cs else .other 0 :: baseGo none true cs
  | some (t, lf), _, c :: cs =>
    if lf && c = '\n' then baseGo (some (t ++ [c], false)) false cs
    else if isBlank c then baseGo (some (t ++ [c], false)) false cs
    else
      .nl (infoOf t (c :: cs)) ::
        (match scanStart c with
         | some st => baseGo (some st) false cs
         | none => .other 0 :: baseGo none true cs)

def baseOf (text : List Char) : List BaseTok := baseGo none false text

def render : NextToken.Tok → String
  | .nl _ => "N" | .indent w => s!"I{w}" | .dedent w => s!"D{w}" | .eof => "E" | .other _ => "o"

def stopName : Stop → String
  | .eof => "EOF" | .nil => "NIL" | .panic => "PANIC" | .fuel => "LIMIT"

end Ysgo.Drv.NextTokenDrv

namespace Ysgo.Drv
open Ysgo Ysgo.Indent Ysgo.NextToken Ysgo.Drv.NextTokenDrv

def nexttokenCase (c : S) : List String :=
  match c.find "text" with
  | some t =>
    let text := (t.args.headD (.list [])).chars
    let base := baseOf text
    if infos base ≠ scan text then ["UNMODELLED"] else
    -- `Ysgo.C20.calls_needed`: this many calls suffice
    let r := pullGo (3 * base.length + 1) (NextToken.init base)
    if r.2 = .panic then ["PANIC"] else
    [String.join (r.1.map fun t => render t ++ " ") ++ stopName r.2]
  | none => ["BADCASE"]

end Ysgo.Drv
