import Ysgo.Sexp
import Ysgo.Obs
import Ysgo.Model.LineLex
import Driver.ExprSynDrv
/-! driver for the `linelex` stream: one body line through `LineLex.lexLine`, printed like `verifhook.DumpDialogue`
    prints a line statement -/
namespace Ysgo.Drv
open Ysgo Ysgo.ExprSyntax Ysgo.LineLex

def dumpElems : List LineLex.Elem → Option String
  | [] => some ""
  | .text s :: r => (dumpElems r).map fun x => " (t " ++ dumpStr s ++ ")" ++ x
  | .expr e :: r =>
    match dumpExpr e, dumpElems r with
    | some a, some x => some (" (e " ++ a ++ ")" ++ x)
    | _, _ => none

def dumpParts (p : LineLex.Parts) : Option String :=
  let cond : Option String := match p.cond with
    | none => some "(none)"
    | some e => dumpExpr e
  match dumpElems p.elems, cond with
  | some els, some c =>
    some ("(line (els" ++ els ++ ") (cond " ++ c ++ ") (tags" ++ String.join (p.tags.map fun t => " " ++ dumpStr t) ++ "))")
  | _, _ => none

def linelexCase (c : S) : List String :=
  match c.find "line", c.find "expect" with
  | some t, some ex =>
    let cs := (t.args.headD (.list [])).chars
    let expect := ex.args.headD (.list [])
    let cmp (got : String) : String :=
      if expect.head = "none" then "-"
      else if got = expect.head ++ " " ++ sToString (expect.args.headD (.list [])) then "same" else "differs"
    if cs.any (fun c => c = '\n' || c = '\r') then ["UNMODELLED", "UNMODELLED"]
    else match lexLine cs with
      | .err => ["LOADERR", cmp "LOADERR"]
      | .notLine => ["UNMODELLED", "UNMODELLED"]
      | .line l =>
        match dumpParts l.parts with
        | none => ["UNMODELLED", "UNMODELLED"]
        | some d =>
          let got := (if l.arrow then "opt " else "line ") ++ d
          [got, cmp got]
  | _, _ => ["BADCASE"]

end Ysgo.Drv
