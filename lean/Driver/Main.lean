import Driver.F64Drv
import Driver.RunDrv
import Driver.LoadDrv
import Driver.ExprSynDrv
import Driver.LineLexDrv
import Driver.BridgeDrv
import Driver.CmdArgsDrv
import Driver.SeedDrv
import Driver.ContainersDrv
import Driver.TokensDrv
import Driver.MarkupDrv
import Driver.WaitDrv
import Driver.NextTokenDrv
import Driver.ChanDrv
import Driver.ListenerDrv
/-! `ysgo-model`: reads case lines on stdin, prints the model's observation lines (id, index, observation) -/
open Ysgo Ysgo.Drv

def dispatch (stream : String) (c : S) : List String :=
  match stream with
  | "f64" => f64Case c
  | "run" => runCase c
  | "load" => loadCase c
  | "exprsyn" => exprsynCase c
  | "linelex" => linelexCase c
  | "bridge" => bridgeCase c
  | "cmdargs" => cmdargsCase c
  | "seed" => seedCase c
  | "containers" => containersCase c
  | "tokens" => tokensCase c
  | "markup" => markupCase c
  | "wait" => waitCase c
  | "nexttoken" => nexttokenCase c
  | "chansched" => chanschedCase c
  | "listener" => listenerCase c
  | "hostile" => ["UNMODELLED"]   -- no model of hosts that change the surroundings mid-evaluation: judged by the no-panic predicate alone
  | _ => ["UNKNOWN-STREAM"]

partial def loop (h : IO.FS.Stream) (out : IO.FS.Stream) : IO Unit := do
  let line ← h.getLine
  if line.isEmpty then return ()
  let c := S.parse line
  match c.items with
  | .atom "case" :: .atom stream :: .atom id :: _ =>
    let obs := dispatch stream c
    let mut k := 0
    for o in obs do
      out.putStrLn s!"{id}\t{k}\t{o}"
      k := k + 1
  | _ => pure ()
  loop h out

def main : IO Unit := do
  let out ← IO.getStdout
  loop (← IO.getStdin) out
  out.flush
