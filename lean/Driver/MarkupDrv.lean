import Ysgo.Sexp
import Ysgo.Obs
import Ysgo.Model.Markup
import Ysgo.Spec.MarkupSpec
/-! driver for the `markup` stream: the model's observations for the profiles `chunks`, `history`, `fuzz` -/
namespace Ysgo.Drv
open Ysgo Ysgo.Markup

/-- a line `(b byte ...)` (decoded like Go decodes it: an invalid byte is U+FFFD) or `(s codepoint ...)` -/
def markupLine (s : S) : List Char :=
  if s.head == "b" then Unicode.decodeUtf8 s.bytes else s.chars

/-- `OK|text|attributes|TextForAttribute of every attribute`, `ERR` or `PANIC` -/
def markupObsOf (o : Outcome ParseResult) : String :=
  match o with
  | .err => "ERR"
  | .panic => "PANIC"
  | .ok res =>
    let tfa := res.attrs.map fun a =>
      match textForAttribute res a with
      | .ok t => Obs.esc t
      | _ => "PANIC"
    "OK|" ++ Obs.esc res.text ++ "|" ++ showAttrs res.attrs ++ "|" ++ ";".intercalate tfa

/-! decoding of the chunk syntax documented in harness/gen/markup.go -/
open MarkupSpec in
def sval (s : S) : SVal :=
  match s.items with
  | [.atom "int", lz, n] => .int lz.toNat n.toNat
  | [.atom "dec", lz, n, fr] => .dec lz.toNat n.toNat fr.chars
  | [.atom "bool", b, sp] => .bool (b.atomStr == "true") sp.chars
  | [.atom "quoted", q] => .quoted q.chars
  | [.atom "bare", w] => .bare w.chars
  | _ => .bare []

open MarkupSpec in
def sshort (s : S) : Option SVal :=
  match s.items with
  | [.atom "some", v] => some (sval v)
  | _ => none

open MarkupSpec in
def sprops (s : S) : List (List Char × SVal) :=
  s.args.map fun p => match p.items with
    | [_, k, v] => (k.chars, sval v)
    | _ => ([], .bare [])

def sws (s : S) : List (List Char) := s.args.map S.chars

open MarkupSpec in
def schunk (s : S) : Chunk :=
  match s.items with
  | [.atom "text", t] => .text t.chars
  | [.atom "escOpen"] => .escOpen
  | [.atom "escClose"] => .escClose
  | [.atom "open", n, sh, ps, ws] => .opn n.chars (sshort sh) (sprops ps) (sws ws)
  | [.atom "selfClose", n, sh, ps, ws] => .selfClose n.chars (sshort sh) (sprops ps) (sws ws)
  | [.atom "close", n, ws] => .close n.chars (sws ws)
  | [.atom "closeAll", ws] => .closeAll (sws ws)
  | [.atom "repl", n, sh, ps, ws, raw, by_, cws] => .repl n.chars (sshort sh) (sprops ps) (sws ws) raw.chars (by_.atomStr == "byName") (sws cws)
  | _ => .text ['[']       -- ill-formed on purpose

/-- the observation the specification prescribes -/
def specObs (cs : List MarkupSpec.Chunk) : String :=
  match MarkupSpec.expected cs with
  | none => "ERR"
  | some res =>
    "OK|" ++ Obs.esc res.text ++ "|" ++ showAttrs res.attrs ++ "|" ++
      ";".intercalate (res.attrs.map fun a => Obs.esc (MarkupSpec.enclosed res a))

def markupCase (c : S) : List String :=
  match c.items with
  | _ :: _ :: _ :: .atom "chunks" :: chunks :: line :: _ =>
    let cs := chunks.args.map schunk
    let l := markupLine line
    let model := markupObsOf (parseRunes {} l).2
    let spec :=
      if !MarkupSpec.wellFormed cs then "SPEC illformed"
      else if MarkupSpec.render cs != l then "SPEC badrender"
      else
        let e := specObs cs
        if e == model then "SPEC same" else "SPEC diff " ++ e
    [model, spec]
  | _ :: _ :: _ :: .atom "fuzz" :: line :: _ =>
    [markupObsOf (parseRunes {} (markupLine line)).2]
  | _ :: _ :: _ :: .atom "history" :: hist :: line :: _ =>
    let st := hist.args.foldl (fun st h => (parseRunes st (markupLine h)).1) ({} : ParserState)
    let reused := markupObsOf (parseRunes st (markupLine line)).2
    let fresh := markupObsOf (parseRunes {} (markupLine line)).2
    [reused, if fresh == reused then "FRESH same" else "FRESH diff " ++ fresh]
  | _ :: _ :: _ :: .atom "utf8" :: line :: _ =>
    [String.join ((markupLine line).map fun c => Obs.hexDigits c.toNat ++ ".")]
  | _ :: _ :: _ :: .atom "unicode" :: lo :: hi :: _ =>
    let cps := (List.range (hi.toNat - lo.toNat)).map (· + lo.toNat)
    let cls := cps.map fun cp =>
      if 0xD800 ≤ cp && cp ≤ 0xDFFF then '-' else
      let c := Char.ofNat cp
      Char.ofNat (48 + (if Unicode.isSpace c then 1 else 0) + (if Unicode.isLetter c then 2 else 0) +
        (if Unicode.isDigit c then 4 else 0))
    let low := cps.filterMap fun cp =>
      if 0xD800 ≤ cp && cp ≤ 0xDFFF then none else
      let c := Char.ofNat cp
      let l := Unicode.toLower c
      if l ≠ c then some (Obs.hexDigits cp ++ ">" ++ Obs.hexDigits l.toNat ++ ".") else none
    [String.ofList cls ++ "|" ++ String.join low]
  | _ => ["BADCASE"]

end Ysgo.Drv
