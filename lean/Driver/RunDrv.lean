import Driver.Decode
import Ysgo.Obs
import Ysgo.Model.Markup
import Ysgo.Lemmas.FuelSize
import Ysgo.Model.Ranked
/-! driver for the `run` stream: a program, a host configuration and an operation list over one or more runners -/
namespace Ysgo.Drv
open Ysgo

/-- host state of the universal harness host: invocation log, and whether a controlled command channel is open -/
structure Host where
  log : List String := []
  ctlOpen : Bool := false
  ticks : Nat := 0
  late : List String := []      -- commands registered on this runner after the run has started

def showNum (x : F64) : String := if x.isNaN then "N:nan" else "N:" ++ toString x.bits
def showVal : Value → String
  | .num x => showNum x
  | .bool b => "B:" ++ toString b
  | .str s => "S:" ++ Obs.esc s
def showVals (vs : List Value) : String := Obs.join "," (vs.map showVal)

def rot1 (c : Char) : Char :=
  if 'a' ≤ c ∧ c ≤ 'z' then Char.ofNat ('a'.toNat + (c.toNat - 'a'.toNat + 1) % 26)
  else if 'A' ≤ c ∧ c ≤ 'Z' then Char.ofNat ('A'.toNat + (c.toNat - 'A'.toNat + 1) % 26)
  else if '0' ≤ c ∧ c ≤ '9' then Char.ofNat ('0'.toNat + (c.toNat - '0'.toNat + 1) % 10)
  else c

def hostEnv (extraCmds : List String) (bare : Bool := false) : Env Host where
  knows f := f == "probe" || f == "two" || f == "boom" || f == "nr" || f == "tick" || f == "crash"
  call f args h :=
    let h := { h with log := h.log ++ [f ++ "(" ++ showVals args ++ ")"] }
    match f, args with
    | "probe", [v] => (.ok (some v), h)
    | "two", [a, _] => (.ok (some a), h)
    | "nr", _ => (.ok none, h)
    | "crash", _ => (.panic .host, h)      -- a host function that panics: the panic is the host's, what follows is the runner's
    | "tick", [] => (.ok (some (.num (F64.ofNat (h.ticks + 1)))), { h with ticks := h.ticks + 1 })
    | _, _ => (.err .callFailed, h)
  cmd name args h :=
    let logged : Host := { h with log := h.log ++ ["cmd:" ++ Obs.esc name ++ "(" ++ showVals args ++ ")"] }
    if h.late.contains name || (!bare && (name == "cmd" || extraCmds.contains name)) then (.done, logged)
    else if bare then (if name == "wait" then (.panicked, h) else (.unknown, h))
    else if name == "failing" then (.failed, logged)
    else if name == "ctl" then (.pending, { logged with ctlOpen := true })
    else if name == "wait" then (.panicked, h)       -- timing dependent: not modelled in this stream
    else (.unknown, h)

/-- the markup pass of the runner: the model of `markup.LineParser.ParseMarkup` with its persistent state -/
abbrev MRes := String × String        -- text, printed attributes
def realMarkup : Markup Markup.ParserState MRes where
  parse st s :=
    match Markup.parseLine st s with
    | (st', .ok r) => (st', .ok (r.text, Markup.showAttrs r.attrs))
    | (st', .err) => (st', .err .markup)
    | (st', .panic) => (st', .panic .index)

def showTags (ts : List String) : String := Obs.join "," (ts.map Obs.esc)
def showLine (r : MRes) (tags : List String) : String := Obs.esc r.1 ++ "^" ++ showTags tags ++ "^" ++ r.2

def showStore (m : Store) : String :=
  Obs.join "," ((Obs.sortBy (fun a b => Obs.strLt a.1 b.1) m).map fun (k, v) => Obs.esc k ++ "=" ++ showVal v)
def showCounts (m : Map Nat) : String :=
  Obs.join "," ((Obs.sortBy (fun a b => Obs.strLt a.1 b.1) m).map fun (k, v) => Obs.esc k ++ "=" ++ toString v)

abbrev RR := R Host Markup.ParserState

structure HR where
  r : RR
  alt : Bool := false      -- this runner was created with the other version of the last reader (operation newalt)
  waitingN : Nat := 0
  ends : Nat := 0

def stateStr (r : RR) : String × RR :=
  let log := Obs.join ";" r.d.w.host.log
  let r' : RR := { r with d := { r.d with w := { r.d.w with host := { r.d.w.host with log := [] } } } }
  ("|log:" ++ log ++ "|v:" ++ showStore r.d.store ++ "|vis:" ++ showCounts r.d.visited, r')

def showOut : NextRes MRes → String
  | .fuel => "UNMODELLED"
  | .out (.ok (.line node res tags)) => "L|" ++ Obs.esc node ++ "|" ++ showLine res tags
  | .out (.ok (.options node os)) =>
    "O|" ++ Obs.esc node ++ "|" ++ Obs.join "~" (os.map fun (res, tags, dis) => toString dis ++ "^" ++ showLine res tags)
  | .out (.ok .ended) => "END"
  | .out (.ok .waiting) => "WAIT"
  | .out (.err .unmodelled) => "UNMODELLED"
  | .out (.err _) => "ERR"
  | .out (.panic _) => "PANIC"

def snapStr (s : Snapshot) : String :=
  "SNAP|" ++ Obs.esc s.node ++ "|v:" ++ showStore s.vars ++ "|vis:" ++ showCounts s.visited

def lookup {α} (l : List (Nat × α)) (j : Nat) : Option α := (l.find? (·.1 == j)).map (·.2)
def update {α} (l : List (Nat × α)) (j : Nat) (a : α) : List (Nat × α) := (j, a) :: l.filter (·.1 != j)

structure St where
  runners : List (Nat × HR) := []
  snaps : Array Snapshot := #[]
  out : Array String := #[]

/-- a string variable has grown past 500 characters: both sides stop stepping such a runner -/
def tooBig (s : Store) : Bool := s.any (fun kv => match kv.2 with | .str t => t.length > 500 | _ => false)

/-- the other version of the last reader: its nodes (index ≥ k) greet with ENTER instead of enter -/
def altProgram (k : Nat) (p : Program) : Program :=
  p.mapIdx fun i n =>
    if i < k then n else
    { n with body := n.body.map fun st =>
        match st with
        | .line l =>
          (match l.elems with
           | [.inl t] => if t.startsWith "enter " then .line { l with elems := [.inl ("ENTER " ++ (t.drop 6).toString)] } else st
           | _ => st)
        | _ => st }

def runCase (c : S) : List String := Id.run do
  let prog0 := match c.find "prog" with | some p => program p | none => []
  let progAlt := match c.find "altfrom" with
    | some a => altProgram ((a.args.headD (.atom "0")).toNat) prog0
    | none => prog0
  let prog := prog0
  let seedStr := match c.find "seed" with | some s => (s.args.headD (.atom "")).str | none => "seed"
  let vars : Store := ((c.find "vars").map S.args |>.getD []).foldl (fun m kv =>
    match kv with
    | .list [k, v] => m.set k.str (value v)
    | _ => m) []
  let extra := ((c.find "cmds").map S.args |>.getD []).map S.str
  let env := hostEnv extra (c.find "bare").isSome
  let noskip := (c.find "noskip").isSome
  let mk := realMarkup
  -- `Props/C01Ranked.fuelFor_sound`: for a Productive program, and for a program whose non-yielding jumps are ranked
  -- (`Ranked.rankOf`), the bound depending on the program alone is never exhausted from a reachable state; other
  -- programs get a generous constant (running out is printed as UNMODELLED)
  let fuel := (Ranked.fuelFor prog).getD 100000
  let mkRunner : Option RR :=
    match Rng.seedToInt64 seedStr with
    | none => none
    | some sd => if seedStr = "" then none else R.init prog vars { host := {}, rng := Rng.seed sd } {}
  match mkRunner with
  | none => return ["LOAD ERR"]
  | some r0 =>
    let mut st : St := { runners := [(0, { r := r0 })] }
    st := { st with out := st.out.push "LOAD OK astok" }
    for op in (c.find "ops").map S.args |>.getD [] do
      let a := op.args
      let j := (a.getD 0 (.atom "0")).toNat
      match op.head with
      | "new" =>
        st := { st with runners := update st.runners j { r := r0 }, out := st.out.push "NEW" }
      | "newalt" =>
        match Rng.seedToInt64 seedStr with
        | none => st := { st with out := st.out.push "NEWERR" }
        | some sd =>
          match (R.init progAlt vars { host := {}, rng := Rng.seed sd } {} : Option RR) with
          | none => st := { st with out := st.out.push "NEWERR" }
          | some ra => st := { st with runners := update st.runners j { r := ra, alt := true }, out := st.out.push "NEW" }
      | "next" =>
        match lookup st.runners j with
        | none => st := { st with out := st.out.push "NORUNNER" }
        | some hr =>
          if (hr.ends ≥ 3 && !noskip) || tooBig hr.r.d.store then
            st := { st with out := st.out.push "SKIP" }
          else
          let cRaw := (a.getD 1 (.atom "0")).toNat
          let choice := if hr.waitingN > 0 then cRaw % hr.waitingN else cRaw
          let (r', res) := hr.r.next env mk (if hr.alt then progAlt else prog) fuel choice
          let wn := match res with | .out (.ok (.options _ os)) => os.length | _ => 0
          let ends := match res with | .out (.ok .ended) => hr.ends + 1 | _ => 0
          let (s, r'') := stateStr r'
          st := { st with runners := update st.runners j { hr with r := r'', waitingN := wn, ends := ends }, out := st.out.push (showOut res ++ s) }
      | "snap" =>
        match lookup st.runners j with
        | none => st := { st with out := st.out.push "NORUNNER" }
        | some hr =>
          let s := hr.r.snapshot
          st := { st with snaps := st.snaps.push s, out := st.out.push (snapStr s) }
      | "resnap" =>
        match st.snaps[j]? with
        | none => st := { st with out := st.out.push "NOSNAP" }
        | some s => st := { st with out := st.out.push (snapStr s) }
      | "mutsnap" =>
        match st.snaps[j]? with
        | none => st := { st with out := st.out.push "NOSNAP" }
        | some s =>
          let s' : Snapshot := ⟨s.vars.set "zz_mut" (.num (F64.ofInt 7)), s.visited.set "zz_mut" 9, s.node⟩
          st := { st with snaps := st.snaps.set! j s', out := st.out.push (snapStr s') }
      | "restore" =>
        let k := (a.getD 1 (.atom "0")).toNat
        match lookup st.runners j, st.snaps[k]? with
        | some hr, some s =>
          match hr.r.restore (if hr.alt then progAlt else prog) s with
          | some r' =>
            let (str, r'') := stateStr r'
            st := { st with runners := update st.runners j { r := r'', alt := hr.alt }, out := st.out.push ("RESTORE OK" ++ str) }
          | none =>
            let (str, r'') := stateStr hr.r
            st := { st with runners := update st.runners j { hr with r := r'' }, out := st.out.push ("RESTORE ERR" ++ str) }
        | _, _ => st := { st with out := st.out.push "NOSNAP" }
      | "restorebad" =>
        match lookup st.runners j with
        | none => st := { st with out := st.out.push "NORUNNER" }
        | some hr =>
          let s : Snapshot := ⟨[("zz", .num (F64.ofInt 1))], [("zz", 3)], (a.getD 1 (.atom "")).str⟩
          match hr.r.restore (if hr.alt then progAlt else prog) s with
          | some r' =>
            let (str, r'') := stateStr r'
            st := { st with runners := update st.runners j { r := r'', alt := hr.alt }, out := st.out.push ("RESTORE OK" ++ str) }
          | none =>
            let (str, r'') := stateStr hr.r
            st := { st with runners := update st.runners j { hr with r := r'' }, out := st.out.push ("RESTORE ERR" ++ str) }
      | "restorenil" =>
        match lookup st.runners j with
        | none => st := { st with out := st.out.push "NORUNNER" }
        | some hr =>
          let s : Snapshot := ⟨[], [], (a.getD 1 (.atom "")).str⟩
          match hr.r.restore (if hr.alt then progAlt else prog) s with
          | some r' =>
            let (str, r'') := stateStr r'
            st := { st with runners := update st.runners j { r := r'', alt := hr.alt }, out := st.out.push ("RESTORE OK" ++ str) }
          | none =>
            let (str, r'') := stateStr hr.r
            st := { st with runners := update st.runners j { hr with r := r'' }, out := st.out.push ("RESTORE ERR" ++ str) }
      | "hset" =>
        match lookup st.runners j with
        | none => st := { st with out := st.out.push "NORUNNER" }
        | some hr =>
          let r1 : RR := { hr.r with d := { hr.r.d with store := hr.r.d.store.set (a.getD 1 (.atom "")).str (value (a.getD 2 (.atom ""))) } }
          let (str, r2) := stateStr r1
          st := { st with runners := update st.runners j { hr with r := r2 }, out := st.out.push ("HSET" ++ str) }
      | "hclear" =>
        match lookup st.runners j with
        | none => st := { st with out := st.out.push "NORUNNER" }
        | some hr =>
          let r1 : RR := { hr.r with d := { hr.r.d with store := [] } }
          let (str, r2) := stateStr r1
          st := { st with runners := update st.runners j { hr with r := r2 }, out := st.out.push ("HSET" ++ str) }
      | "hrev" =>
        match lookup st.runners j with
        | none => st := { st with out := st.out.push "NORUNNER" }
        | some hr =>
          let v := (a.getD 1 (.atom "")).str
          let store' := match hr.r.d.store.get v with
            | some (.str t) => hr.r.d.store.set v (.str (String.ofList (t.toList.map rot1)))
            | _ => hr.r.d.store
          let r1 : RR := { hr.r with d := { hr.r.d with store := store' } }
          let (str, r2) := stateStr r1
          st := { st with runners := update st.runners j { hr with r := r2 }, out := st.out.push ("HSET" ++ str) }
      | "addcmd" =>
        match lookup st.runners j with
        | none => st := { st with out := st.out.push "NORUNNER" }
        | some hr =>
          let name := (a.getD 1 (.atom "")).str
          let r1 : RR := { hr.r with d := { hr.r.d with w := { hr.r.d.w with host := { hr.r.d.w.host with late := hr.r.d.w.host.late ++ [name] } } } }
          st := { st with runners := update st.runners j { hr with r := r1 }, out := st.out.push "ADDCMD" }
      | "complete" =>
        match lookup st.runners j with
        | none => st := { st with out := st.out.push "NOCTL" }
        | some hr =>
          if hr.r.d.w.host.ctlOpen then
            let failed := (a.getD 1 (.atom "ok")).atomStr != "ok"
            let pend := match hr.r.d.pending with | some none => some (some failed) | p => p
            let r1 : RR := { hr.r with d := { hr.r.d with pending := pend, w := { hr.r.d.w with host := { hr.r.d.w.host with ctlOpen := false } } } }
            st := { st with runners := update st.runners j { hr with r := r1 }, out := st.out.push "DONE" }
          else st := { st with out := st.out.push "NOCTL" }
      | _ => st := { st with out := st.out.push "BADOP" }
    return st.out.toList

end Ysgo.Drv
