import Ysgo.Sexp
import Ysgo.Obs
import Ysgo.Model.Seed
/-! driver for the `seed` stream: `(case seed id (b byte ...))` → OK/ERR, then `INFO <int64>` (informational) -/
namespace Ysgo.Drv.SeedD
open Ysgo

/-- the runes of the byte string as far as `seedToInt64` can tell them apart: an ASCII byte is its own rune; every
byte ≥ 0x80 belongs to a multi-byte rune or decodes to U+FFFD — in both cases a rune outside `[0-9a-z]`, rendered here as
one U+FFFD per byte (the number of runes is not observable, only whether all of them are digits) -/
def runes (bs : List Nat) : List Char := bs.map fun b => if b < 128 then Char.ofNat b else Char.ofNat 0xFFFD

def showInt (i : Int) : String := if i < 0 then "-" ++ toString i.natAbs else toString i.natAbs

def run (c : S) : List String :=
  match c.items with
  | _ :: _ :: _ :: b :: _ =>
    (match Seed.newRng (runes b.bytes) with
     | .random => ["OK", "INFO random"]
     | .seeded v => ["OK", "INFO " ++ showInt v]
     | .invalid => ["ERR"])
  | _ => ["BADCASE"]

end Ysgo.Drv.SeedD

/-- the model's observations for one case of the `seed` stream -/
def Ysgo.Drv.seedCase (c : Ysgo.S) : List String := Ysgo.Drv.SeedD.run c
