#!/bin/sh
# setup_cmd: build the framework offline from files on disk (Lean library + model driver, Go harness and tools).
set -e
cd "$(dirname "$0")"
export GOFLAGS=-mod=mod GOPROXY=off GOSUMDB=off GOTOOLCHAIN=local
mkdir -p build evidence replays
# the generated facts are a function of /repo: never trust the committed copies
./check --regen
(cd lean && lake build Ysgo ysgo-model)
(cd harness && go build -tags verif -o ../build/harness .)
(cd tools && go vet ./... >/dev/null 2>&1 || true)
echo setup done
