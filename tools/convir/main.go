// convir translates the conversion built-ins (base_functions.go: toString, toBoolean, toFloat), Value.ToString
// (variable/value.go) and the markup replacement processors (markup/processors.go, with Value.toString and
// attributeMarker.GetProperty of markup/parse_result.go) into terms of the imperative IR of lean/Ysgo/Spec/ConvIR.lean.
// Props/C19IR.lean and Props/C13IR.lean interpret the terms and prove them equal to the hand-written models for every
// input, so this part of the model is regenerated from what the code says now.
//
// The translation is purely syntactic (go/ast, no type information). Locals (receiver, parameters, then every
// declaration in source order) are numbered; comments and parentheses vanish; the arguments of errors.New and
// fmt.Errorf (message texts) are dropped; string constants of the package are inlined; `switch` becomes a chain of
// `ite` with the default clause last. Whatever is not understood becomes an `unsupported` node, which the interpreter
// cannot evaluate; a missing function or an ambiguous method name is a non-zero exit.
//
// usage (from /verif/tools): go run ./convir [repo] > lean/Ysgo/Generated/ConvIR.lean
package main

import (
	"fmt"
	"go/ast"
	"go/parser"
	"go/token"
	"os"
	"path/filepath"
	"sort"
	"strconv"
	"strings"
)

// leanStr quotes a string as a Lean string literal
func leanStr(s string) string {
	var b strings.Builder
	b.WriteByte('"')
	for _, r := range s {
		switch {
		case r == '\\':
			b.WriteString(`\\`)
		case r == '"':
			b.WriteString(`\"`)
		case r == '\n':
			b.WriteString(`\n`)
		case r == '\t':
			b.WriteString(`\t`)
		case r == '\r':
			b.WriteString(`\r`)
		case r < 0x20 || r == 0x7f:
			fmt.Fprintf(&b, `\x%02x`, r)
		default:
			b.WriteRune(r)
		}
	}
	b.WriteByte('"')
	return b.String()
}

func leanInt(n int64) string {
	if n < 0 {
		return fmt.Sprintf("(%d)", n)
	}
	return fmt.Sprintf("%d", n)
}

func unsupportedE(what string) string { return "(.unsupported " + leanStr(what) + ")" }
func unsupportedS(what string) string { return "(.unsupported " + leanStr(what) + ")" }

// pkg is what the translator knows about one Go package directory
type pkg struct {
	files   []*ast.File
	funcs   map[string]*ast.FuncDecl   // top-level functions by name
	methods map[string][]*ast.FuncDecl // methods by name (any receiver)
	consts  map[string]ast.Expr        // package-level constants
}

func loadPkg(fset *token.FileSet, dir string) *pkg {
	p := &pkg{funcs: map[string]*ast.FuncDecl{}, methods: map[string][]*ast.FuncDecl{}, consts: map[string]ast.Expr{}}
	entries, err := os.ReadDir(dir)
	if err != nil {
		fmt.Fprintln(os.Stderr, err)
		os.Exit(1)
	}
	for _, e := range entries {
		n := e.Name()
		if e.IsDir() || !strings.HasSuffix(n, ".go") || strings.HasSuffix(n, "_test.go") {
			continue
		}
		f, err := parser.ParseFile(fset, filepath.Join(dir, n), nil, parser.ParseComments)
		if err != nil {
			fmt.Fprintln(os.Stderr, err)
			os.Exit(1)
		}
		// files behind a build constraint (the verification hooks) are not part of the package as shipped
		constrained := false
		for _, cg := range f.Comments {
			if cg.Pos() < f.Package {
				for _, c := range cg.List {
					if strings.HasPrefix(c.Text, "//go:build") {
						constrained = true
					}
				}
			}
		}
		if constrained {
			continue
		}
		p.files = append(p.files, f)
		for _, d := range f.Decls {
			switch x := d.(type) {
			case *ast.FuncDecl:
				if x.Body == nil {
					continue
				}
				if x.Recv == nil {
					p.funcs[x.Name.Name] = x
				} else {
					p.methods[x.Name.Name] = append(p.methods[x.Name.Name], x)
				}
			case *ast.GenDecl:
				if x.Tok != token.CONST {
					continue
				}
				for _, sp := range x.Specs {
					vs := sp.(*ast.ValueSpec)
					for i, n := range vs.Names {
						if i < len(vs.Values) {
							p.consts[n.Name] = vs.Values[i]
						} else {
							p.consts[n.Name] = nil // an iota continuation: stays symbolic
						}
					}
				}
			}
		}
	}
	return p
}

type scope struct {
	names  map[string]int
	parent *scope
}

func (s *scope) lookup(n string) (int, bool) {
	for c := s; c != nil; c = c.parent {
		if i, ok := c.names[n]; ok {
			return i, true
		}
	}
	return 0, false
}

// tr translates one function body
type tr struct {
	p       *pkg
	imports map[string]bool // names under which the file imports packages
	next    int             // next local number
	sc      *scope
	called  map[string]bool // package-local functions ("f") and methods (".m") referred to
}

func (t *tr) push()      { t.sc = &scope{names: map[string]int{}, parent: t.sc} }
func (t *tr) pop()       { t.sc = t.sc.parent }
func (t *tr) fresh() int { n := t.next; t.next++; return n }

func (t *tr) declare(name string) int {
	n := t.fresh()
	if name != "_" && name != "" {
		t.sc.names[name] = n
	}
	return n
}

func (t *tr) block(list []ast.Stmt) string {
	if len(list) == 0 {
		return ".skip"
	}
	parts := make([]string, len(list))
	for i, s := range list {
		parts[i] = t.stmt(s)
	}
	out := parts[len(parts)-1]
	for i := len(parts) - 2; i >= 0; i-- {
		out = "(.seq " + parts[i] + "\n " + out + ")"
	}
	return out
}

func (t *tr) scoped(list []ast.Stmt) string {
	t.push()
	defer t.pop()
	return t.block(list)
}

func (t *tr) assign(s *ast.AssignStmt) string {
	if s.Tok != token.DEFINE && s.Tok != token.ASSIGN {
		return unsupportedS("assignment " + s.Tok.String())
	}
	names := make([]string, len(s.Lhs))
	for i, l := range s.Lhs {
		id, ok := l.(*ast.Ident)
		if !ok {
			return unsupportedS("assignment to a non-identifier")
		}
		names[i] = id.Name
	}
	if len(s.Rhs) != 1 || len(names) < 1 || len(names) > 2 {
		return unsupportedS("assignment shape")
	}
	rhs := t.expr(s.Rhs[0]) // evaluated before the left side is declared
	idx := make([]int, len(names))
	for i, n := range names {
		if s.Tok == token.DEFINE {
			if j, ok := t.sc.names[n]; ok && n != "_" {
				idx[i] = j // redeclared in the same scope: the same variable
			} else {
				idx[i] = t.declare(n)
			}
		} else {
			if n == "_" {
				idx[i] = t.fresh()
			} else if j, ok := t.sc.lookup(n); ok {
				idx[i] = j
			} else {
				return unsupportedS("assignment to a non-local " + n)
			}
		}
	}
	if len(idx) == 1 {
		return fmt.Sprintf("(.set %d %s)", idx[0], rhs)
	}
	return fmt.Sprintf("(.set2 %d %d %s)", idx[0], idx[1], rhs)
}

// pure reports whether evaluating e twice is the same as evaluating it once: an identifier or a chain of selectors
func pure(e ast.Expr) bool {
	switch x := e.(type) {
	case *ast.Ident:
		return true
	case *ast.SelectorExpr:
		return pure(x.X)
	case *ast.ParenExpr:
		return pure(x.X)
	}
	return false
}

func (t *tr) ifStmt(s *ast.IfStmt) string {
	t.push()
	defer t.pop()
	init := ""
	if s.Init != nil {
		init = t.stmt(s.Init)
	}
	cond := t.expr(s.Cond)
	then := t.scoped(s.Body.List)
	els := ".skip"
	switch e := s.Else.(type) {
	case nil:
	case *ast.BlockStmt:
		els = t.scoped(e.List)
	case *ast.IfStmt:
		els = t.ifStmt(e)
	default:
		els = unsupportedS("else")
	}
	out := "(.ite " + cond + "\n " + then + "\n " + els + ")"
	if init != "" {
		out = "(.seq " + init + "\n " + out + ")"
	}
	return out
}

func (t *tr) switchStmt(s *ast.SwitchStmt) string {
	if s.Init != nil {
		return unsupportedS("switch with an init statement")
	}
	tag := ""
	if s.Tag != nil {
		if !pure(s.Tag) {
			return unsupportedS("switch on an expression that is not a selector chain")
		}
		tag = t.expr(s.Tag)
	}
	type clause struct{ cond, body string }
	var clauses []clause
	deflt := ".skip"
	seenDefault := false
	for _, c := range s.Body.List {
		cc, ok := c.(*ast.CaseClause)
		if !ok {
			return unsupportedS("switch clause")
		}
		body := t.scoped(cc.Body)
		if cc.List == nil {
			if seenDefault {
				return unsupportedS("two default clauses")
			}
			seenDefault = true
			deflt = body
			continue
		}
		cond := ""
		for i := len(cc.List) - 1; i >= 0; i-- {
			one := t.expr(cc.List[i])
			if tag != "" {
				one = "(.bin \"==\" " + tag + " " + one + ")"
			}
			if cond == "" {
				cond = one
			} else {
				cond = "(.lor " + one + " " + cond + ")"
			}
		}
		clauses = append(clauses, clause{cond, body})
	}
	out := deflt
	for i := len(clauses) - 1; i >= 0; i-- {
		out = "(.ite " + clauses[i].cond + "\n " + clauses[i].body + "\n " + out + ")"
	}
	return out
}

func (t *tr) stmt(s ast.Stmt) string {
	switch x := s.(type) {
	case *ast.EmptyStmt:
		return ".skip"
	case *ast.AssignStmt:
		return t.assign(x)
	case *ast.DeclStmt:
		gd, ok := x.Decl.(*ast.GenDecl)
		if ok && gd.Tok == token.VAR && len(gd.Specs) == 1 {
			vs := gd.Specs[0].(*ast.ValueSpec)
			if len(vs.Names) == 1 && len(vs.Values) == 1 {
				rhs := t.expr(vs.Values[0])
				return fmt.Sprintf("(.set %d %s)", t.declare(vs.Names[0].Name), rhs)
			}
		}
		return unsupportedS("declaration")
	case *ast.ReturnStmt:
		switch len(x.Results) {
		case 1:
			return "(.ret1 " + t.expr(x.Results[0]) + ")"
		case 2:
			return "(.ret2 " + t.expr(x.Results[0]) + " " + t.expr(x.Results[1]) + ")"
		}
		return unsupportedS("return of " + strconv.Itoa(len(x.Results)) + " values")
	case *ast.BlockStmt:
		return t.scoped(x.List)
	case *ast.IfStmt:
		return t.ifStmt(x)
	case *ast.SwitchStmt:
		return t.switchStmt(x)
	case *ast.RangeStmt:
		if x.Tok != token.DEFINE {
			return unsupportedS("range without :=")
		}
		e := t.expr(x.X)
		t.push()
		defer t.pop()
		name := func(e ast.Expr) (string, bool) {
			if e == nil {
				return "_", true
			}
			id, ok := e.(*ast.Ident)
			if !ok {
				return "", false
			}
			return id.Name, true
		}
		kn, ok1 := name(x.Key)
		vn, ok2 := name(x.Value)
		if !ok1 || !ok2 {
			return unsupportedS("range variables")
		}
		k := t.declare(kn)
		v := t.declare(vn)
		return fmt.Sprintf("(.range %d %d %s\n %s)", k, v, e, t.scoped(x.Body.List))
	}
	return unsupportedS(fmt.Sprintf("%T", s))
}

var conversions = map[string]bool{"float64": true, "int": true, "int64": true}

func (t *tr) constant(name string) string {
	v := t.p.consts[name]
	switch x := v.(type) {
	case *ast.BasicLit:
		return t.expr(x)
	case *ast.ParenExpr:
		if b, ok := x.X.(*ast.BasicLit); ok {
			return t.expr(b)
		}
	}
	return "(.const " + leanStr(name) + ")"
}

func (t *tr) call(name string, args []ast.Expr) string {
	as := make([]string, len(args))
	for i, a := range args {
		as[i] = t.expr(a)
	}
	if len(as) > 3 {
		return unsupportedE(name + " with more than three arguments")
	}
	return fmt.Sprintf("(.call%d %s%s)", len(as), leanStr(name), prefixEach(as))
}

func prefixEach(as []string) string {
	out := ""
	for _, a := range as {
		out += " " + a
	}
	return out
}

func (t *tr) expr(e ast.Expr) string {
	switch x := e.(type) {
	case *ast.ParenExpr:
		return t.expr(x.X)
	case *ast.Ident:
		if i, ok := t.sc.lookup(x.Name); ok {
			return fmt.Sprintf("(.var %d)", i)
		}
		switch x.Name {
		case "nil":
			return ".nil"
		case "true":
			return "(.litB true)"
		case "false":
			return "(.litB false)"
		}
		if _, ok := t.p.consts[x.Name]; ok {
			return t.constant(x.Name)
		}
		if _, ok := t.p.funcs[x.Name]; ok {
			t.called[x.Name] = true
			return "(.fnref " + leanStr(x.Name) + ")"
		}
		return unsupportedE("identifier " + x.Name)
	case *ast.BasicLit:
		switch x.Kind {
		case token.INT:
			if n, err := strconv.ParseInt(x.Value, 0, 64); err == nil {
				return "(.litI " + leanInt(n) + ")"
			}
		case token.CHAR:
			if r, _, _, err := strconv.UnquoteChar(x.Value[1:len(x.Value)-1], '\''); err == nil {
				return "(.litI " + leanInt(int64(r)) + ")"
			}
		case token.FLOAT:
			if f, err := strconv.ParseFloat(x.Value, 64); err == nil && f == float64(int64(f)) && f < 1e15 && f > -1e15 {
				return "(.litF " + leanInt(int64(f)) + ")"
			}
		case token.STRING:
			if s, err := strconv.Unquote(x.Value); err == nil {
				return "(.litS " + leanStr(s) + ")"
			}
		}
		return unsupportedE("literal " + x.Value)
	case *ast.UnaryExpr:
		switch x.Op {
		case token.NOT:
			return "(.un \"!\" " + t.expr(x.X) + ")"
		case token.SUB:
			return "(.un \"-\" " + t.expr(x.X) + ")"
		case token.ADD:
			return t.expr(x.X)
		}
		return unsupportedE("unary " + x.Op.String())
	case *ast.StarExpr:
		return "(.deref " + t.expr(x.X) + ")"
	case *ast.BinaryExpr:
		switch x.Op {
		case token.LAND:
			return "(.land " + t.expr(x.X) + " " + t.expr(x.Y) + ")"
		case token.LOR:
			return "(.lor " + t.expr(x.X) + " " + t.expr(x.Y) + ")"
		case token.EQL, token.NEQ, token.LSS, token.LEQ, token.GTR, token.GEQ, token.ADD, token.SUB, token.MUL, token.QUO, token.REM:
			return "(.bin " + leanStr(x.Op.String()) + " " + t.expr(x.X) + " " + t.expr(x.Y) + ")"
		}
		return unsupportedE("binary " + x.Op.String())
	case *ast.SelectorExpr:
		if id, ok := x.X.(*ast.Ident); ok {
			if _, local := t.sc.lookup(id.Name); !local && t.imports[id.Name] {
				return "(.const " + leanStr(id.Name+"."+x.Sel.Name) + ")"
			}
		}
		return "(.field " + t.expr(x.X) + " " + leanStr(x.Sel.Name) + ")"
	case *ast.IndexExpr:
		return "(.index " + t.expr(x.X) + " " + t.expr(x.Index) + ")"
	case *ast.CompositeLit:
		if id, ok := x.Type.(*ast.Ident); ok && len(x.Elts) == 0 {
			return "(.zero " + leanStr(id.Name) + ")"
		}
		return unsupportedE("composite literal")
	case *ast.CallExpr:
		if x.Ellipsis != token.NoPos {
			return unsupportedE("call with ...")
		}
		switch f := x.Fun.(type) {
		case *ast.Ident:
			if _, local := t.sc.lookup(f.Name); local {
				return unsupportedE("call of the local " + f.Name)
			}
			if f.Name == "len" && len(x.Args) == 1 {
				return "(.len " + t.expr(x.Args[0]) + ")"
			}
			if conversions[f.Name] && len(x.Args) == 1 {
				return "(.conv " + leanStr(f.Name) + " " + t.expr(x.Args[0]) + ")"
			}
			if _, ok := t.p.funcs[f.Name]; ok {
				t.called[f.Name] = true
				return t.call(f.Name, x.Args)
			}
			return unsupportedE("call of " + f.Name)
		case *ast.SelectorExpr:
			if id, ok := f.X.(*ast.Ident); ok {
				if _, local := t.sc.lookup(id.Name); !local && t.imports[id.Name] {
					name := id.Name + "." + f.Sel.Name
					if name == "errors.New" || name == "fmt.Errorf" {
						return ".mkErr" // the message is not translated
					}
					return t.call(name, x.Args)
				}
			}
			recv := t.expr(f.X)
			if len(t.p.methods[f.Sel.Name]) > 0 {
				t.called["."+f.Sel.Name] = true
			}
			switch len(x.Args) {
			case 0:
				return "(.mcall0 " + leanStr("."+f.Sel.Name) + " " + recv + ")"
			case 1:
				return "(.mcall1 " + leanStr("."+f.Sel.Name) + " " + recv + " " + t.expr(x.Args[0]) + ")"
			}
			return unsupportedE("method call with more than one argument")
		}
		return unsupportedE("call")
	}
	return unsupportedE(fmt.Sprintf("%T", e))
}

type def struct {
	key, leanName, origin string
	nparams               int
	body                  string
}

func importsOf(p *pkg, fd *ast.FuncDecl) map[string]bool {
	m := map[string]bool{}
	for _, f := range p.files {
		if f.Pos() <= fd.Pos() && fd.End() <= f.End() {
			for _, im := range f.Imports {
				path, _ := strconv.Unquote(im.Path.Value)
				name := path[strings.LastIndex(path, "/")+1:]
				if im.Name != nil {
					name = im.Name.Name
				}
				m[name] = true
			}
		}
	}
	return m
}

func translate(p *pkg, key string, fd *ast.FuncDecl, origin string) (def, map[string]bool) {
	t := &tr{p: p, imports: importsOf(p, fd), called: map[string]bool{}}
	t.push()
	if fd.Recv != nil {
		for _, f := range fd.Recv.List {
			if len(f.Names) == 0 {
				t.declare("_")
			}
			for _, n := range f.Names {
				t.declare(n.Name)
			}
		}
	}
	for _, f := range fd.Type.Params.List {
		if len(f.Names) == 0 {
			t.declare("_")
		}
		for _, n := range f.Names {
			t.declare(n.Name)
		}
	}
	np := t.next
	body := t.block(fd.Body.List) // parameters and the outermost block share a scope in Go
	return def{key: key, origin: origin, nparams: np, body: body}, t.called
}

func leanIdent(key string) string {
	s := strings.ReplaceAll(key, ".", "m_")
	return "d_" + s
}

func main() {
	repo := os.Getenv("VERIF_REPO")
	if repo == "" {
		repo = "/repo"
	}
	if len(os.Args) > 1 {
		repo = os.Args[1]
	}
	fset := token.NewFileSet()
	type root struct {
		dir    string
		prefix string // distinguishes the Lean names of the packages
		wanted []string
	}
	roots := []root{
		{"variable", "variable", []string{".ToString"}},
		{"", "ysgo", []string{"toString", "toBoolean", "toFloat"}},
		{"markup", "markup", []string{"getProcessor", "processNoMarkup", "processSelect", "processPlural", "processOrdinal",
			"replacePlaceholders", ".toString", ".GetProperty"}},
	}
	var defs []def
	seen := map[string]string{}
	for _, r := range roots {
		p := loadPkg(fset, filepath.Join(repo, r.dir))
		work := append([]string{}, r.wanted...)
		done := map[string]bool{}
		for len(work) > 0 {
			key := work[0]
			work = work[1:]
			if done[key] {
				continue
			}
			done[key] = true
			var fd *ast.FuncDecl
			if strings.HasPrefix(key, ".") {
				ms := p.methods[key[1:]]
				if len(ms) != 1 {
					fmt.Fprintf(os.Stderr, "convir: %d methods named %s in package %s\n", len(ms), key[1:], r.prefix)
					os.Exit(1)
				}
				fd = ms[0]
			} else {
				fd = p.funcs[key]
				if fd == nil {
					fmt.Fprintf(os.Stderr, "convir: no function %s in package %s\n", key, r.prefix)
					os.Exit(1)
				}
			}
			d, called := translate(p, key, fd, r.prefix)
			if other, dup := seen[key]; dup {
				fmt.Fprintf(os.Stderr, "convir: %s is defined in %s and in %s\n", key, other, r.prefix)
				os.Exit(1)
			}
			seen[key] = r.prefix
			d.leanName = leanIdent(key)
			defs = append(defs, d)
			var more []string
			for c := range called {
				more = append(more, c)
			}
			sort.Strings(more)
			work = append(work, more...)
		}
	}
	fmt.Println("import Ysgo.Spec.ConvIR")
	fmt.Println("/-! GENERATED by tools/convir from base_functions.go, variable/value.go, markup/processors.go, markup/parse_result.go — do not edit -/")
	fmt.Println("namespace Ysgo.Generated.Conv")
	fmt.Println("open Ysgo.ConvIR")
	for _, d := range defs {
		fmt.Printf("\n/-- package %s: %s -/\n", d.origin, d.key)
		fmt.Printf("def %s : Def := { name := %s, nparams := %d, body :=\n %s }\n", d.leanName, leanStr(d.key), d.nparams, d.body)
	}
	names := make([]string, len(defs))
	for i, d := range defs {
		names[i] = d.leanName
	}
	fmt.Println("\n/-- the translated functions; methods are named `.m` -/")
	fmt.Println("def convSrc : List Def := [" + strings.Join(names, ", ") + "]")
	fmt.Println("end Ysgo.Generated.Conv")
}
