// Command chanfacts extracts from command_storer.go and runner.go the facts the channel-level model of the pending-command
// mailbox (lean/Ysgo/Model/Chan.lean) depends on, and prints them as Lean data (lean/Ysgo/Generated/ChanFacts.lean):
//
//   - where the channels handed to the runner are made (inside the per-call closure / function, or hoisted out of it)
//     and with which capacity: newYarnSpinnerCommand, waitCommand, chanWithImmediateValue, commandStorer.call;
//   - how many sends the goroutines of the library execute along each of their paths, on which channel, and whether the
//     switch over the return signature covers every signature checkCommandOutputParameters can produce;
//   - whether the library ever closes a channel;
//   - the shape of the two polls (select with a receive case and a default) and of their branches, and whether RestoreAt
//     and the value branch of the poll at the top of Next assign nil to commandErrChan.
//
// usage: chanfacts [<repository root>]   (default: $VERIF_REPO, then /repo)
package main

import (
	"fmt"
	"go/ast"
	"go/parser"
	"go/printer"
	"go/token"
	"os"
	"path/filepath"
	"sort"
	"strconv"
	"strings"
)

var fset = token.NewFileSet()

func die(format string, args ...any) {
	fmt.Fprintf(os.Stderr, "chanfacts: "+format+"\n", args...)
	os.Exit(1)
}

// canon renames the runner's pending-command field to the name the facts are written in: the field is recognised by its
// type (the only `<-chan error` field of DialogueRunner), not by what it is called
var canon = strings.NewReplacer()

func src(n ast.Node) string {
	var b strings.Builder
	printer.Fprint(&b, fset, n)
	return canon.Replace(strings.Join(strings.Fields(b.String()), " "))
}

func detectPendingField(f *ast.File) {
	ast.Inspect(f, func(n ast.Node) bool {
		ts, ok := n.(*ast.TypeSpec)
		if !ok || ts.Name.Name != "DialogueRunner" {
			return true
		}
		st, ok := ts.Type.(*ast.StructType)
		if !ok {
			return true
		}
		for _, fl := range st.Fields.List {
			var b strings.Builder
			printer.Fprint(&b, fset, fl.Type)
			if b.String() == "<-chan error" && len(fl.Names) == 1 {
				canon = strings.NewReplacer("."+fl.Names[0].Name, ".commandErrChan")
			}
		}
		return false
	})
}

func parse(path string) *ast.File {
	f, err := parser.ParseFile(fset, path, nil, 0)
	if err != nil {
		die("%v", err)
	}
	return f
}

func findFunc(f *ast.File, name string) *ast.FuncDecl {
	for _, d := range f.Decls {
		if fd, ok := d.(*ast.FuncDecl); ok && fd.Name.Name == name {
			return fd
		}
	}
	die("function %s not found", name)
	return nil
}

type madeChan struct {
	pos      token.Pos
	capacity int
	name     string // the variable it is assigned to
}

// makes lists the `x := make(chan T, N)` / `var x = make(chan T, N)` under a node
func makes(n ast.Node) []madeChan {
	var out []madeChan
	record := func(lhs ast.Expr, rhs ast.Expr) {
		call, ok := rhs.(*ast.CallExpr)
		if !ok || src(call.Fun) != "make" || len(call.Args) == 0 {
			return
		}
		if _, ok := call.Args[0].(*ast.ChanType); !ok {
			return
		}
		capacity := 0
		if len(call.Args) > 1 {
			lit, ok := call.Args[1].(*ast.BasicLit)
			if !ok || lit.Kind != token.INT {
				die("capacity of %s is not an integer literal", src(call))
			}
			capacity, _ = strconv.Atoi(lit.Value)
		}
		out = append(out, madeChan{call.Pos(), capacity, src(lhs)})
	}
	ast.Inspect(n, func(x ast.Node) bool {
		switch s := x.(type) {
		case *ast.AssignStmt:
			if len(s.Lhs) == 1 && len(s.Rhs) == 1 {
				record(s.Lhs[0], s.Rhs[0])
			}
		case *ast.ValueSpec:
			if len(s.Names) == 1 && len(s.Values) == 1 {
				record(s.Names[0], s.Values[0])
			}
		}
		return true
	})
	return out
}

func inside(pos token.Pos, n ast.Node) bool { return n != nil && n.Pos() <= pos && pos < n.End() }

// sendCounts: the numbers of sends on channel `ch` along the paths through a statement list. Only the statement kinds
// the goroutines of the library are made of are recognised; anything else stops the extraction.
func sendCounts(stmts []ast.Stmt, ch string) []int {
	open := map[int]bool{0: true} // counts of the paths still running
	done := map[int]bool{}        // counts of the paths that returned
	var block func(stmts []ast.Stmt, in map[int]bool) map[int]bool
	var stmt func(s ast.Stmt, in map[int]bool) map[int]bool
	block = func(stmts []ast.Stmt, in map[int]bool) map[int]bool {
		for _, s := range stmts {
			in = stmt(s, in)
		}
		return in
	}
	union := func(a, b map[int]bool) map[int]bool {
		out := map[int]bool{}
		for k := range a {
			out[k] = true
		}
		for k := range b {
			out[k] = true
		}
		return out
	}
	stmt = func(s ast.Stmt, in map[int]bool) map[int]bool {
		switch x := s.(type) {
		case *ast.SendStmt:
			if src(x.Chan) != ch {
				die("send on %s, expected %s", src(x.Chan), ch)
			}
			out := map[int]bool{}
			for k := range in {
				out[k+1] = true
			}
			return out
		case *ast.ReturnStmt:
			for k := range in {
				done[k] = true
			}
			return map[int]bool{}
		case *ast.AssignStmt, *ast.DeclStmt:
			return in
		case *ast.ExprStmt:
			// a call (time.Sleep, reflect's Call): no send inside a plain expression
			return in
		case *ast.BlockStmt:
			return block(x.List, in)
		case *ast.IfStmt:
			out := block(x.Body.List, in)
			if x.Else != nil {
				return union(out, stmt(x.Else, in))
			}
			return union(out, in)
		case *ast.SwitchStmt:
			out := map[int]bool{}
			hasDefault := false
			for _, c := range x.Body.List {
				cc := c.(*ast.CaseClause)
				if cc.List == nil {
					hasDefault = true
				}
				out = union(out, block(cc.Body, in))
			}
			if !hasDefault && !switchExhaustive[x] {
				out = union(out, in)
			}
			return out
		}
		die("statement not recognised in a goroutine of the library: %s", src(s))
		return nil
	}
	open = block(stmts, open)
	var out []int
	for k := range union(open, done) {
		out = append(out, k)
	}
	sort.Ints(out)
	return out
}

// switches shown to cover every value their tag can have
var switchExhaustive = map[*ast.SwitchStmt]bool{}

// allPathsReturn: every path through the statements ends in a return
func allPathsReturn(stmts []ast.Stmt) bool {
	for _, s := range stmts {
		switch x := s.(type) {
		case *ast.ReturnStmt:
			return true
		case *ast.IfStmt:
			if x.Else != nil {
				if eb, ok := x.Else.(*ast.BlockStmt); ok && allPathsReturn(x.Body.List) && allPathsReturn(eb.List) {
					return true
				}
			}
		}
	}
	return false
}

func nats(xs []int) string {
	parts := make([]string, len(xs))
	for i, x := range xs {
		parts[i] = strconv.Itoa(x)
	}
	return "[" + strings.Join(parts, ", ") + "]"
}

func goFuncBody(n ast.Node) *ast.BlockStmt {
	var body *ast.BlockStmt
	count := 0
	ast.Inspect(n, func(x ast.Node) bool {
		if g, ok := x.(*ast.GoStmt); ok {
			if fl, ok := g.Call.Fun.(*ast.FuncLit); ok {
				body = fl.Body
				count++
			}
		}
		return true
	})
	if count != 1 {
		die("expected exactly one `go func() {...}()`, found %d", count)
	}
	return body
}

func main() {
	root := os.Getenv("VERIF_REPO")
	if len(os.Args) > 1 {
		root = os.Args[1]
	}
	if root == "" {
		root = "/repo"
	}
	cs := parse(filepath.Join(root, "command_storer.go"))
	rn := parse(filepath.Join(root, "runner.go"))
	detectPendingField(rn)

	// a channel made at package level (hoisted out of every function)
	var packageLevel []madeChan
	for _, d := range cs.Decls {
		if gd, ok := d.(*ast.GenDecl); ok && gd.Tok == token.VAR {
			packageLevel = append(packageLevel, makes(gd)...)
		}
	}
	theMake := func(fn *ast.FuncDecl) (madeChan, bool) {
		ms := makes(fn)
		if len(ms) == 1 {
			return ms[0], true
		}
		if len(ms) == 0 && len(packageLevel) == 1 {
			return packageLevel[0], false // not per call
		}
		die("%s: expected exactly one make(chan ...), found %d", fn.Name.Name, len(ms))
		return madeChan{}, false
	}

	// ---- newYarnSpinnerCommand
	nyc := findFunc(cs, "newYarnSpinnerCommand")
	var closure *ast.FuncLit
	for _, s := range nyc.Body.List {
		if ret, ok := s.(*ast.ReturnStmt); ok && len(ret.Results) == 2 {
			if fl, ok := ret.Results[0].(*ast.FuncLit); ok {
				closure = fl
			}
		}
	}
	if closure == nil {
		die("newYarnSpinnerCommand: the returned closure was not found")
	}
	wrapMake, inFn := theMake(nyc)
	perCall := inFn && inside(wrapMake.pos, closure)
	// the early block for chan-returning handlers, and the goroutine's switch
	chanBranchReturns := false
	earlySignatures := map[string]bool{}
	for _, s := range closure.Body.List {
		if is, ok := s.(*ast.IfStmt); ok && strings.HasPrefix(src(is.Cond), "returnSignature == ") {
			if allPathsReturn(is.Body.List) {
				chanBranchReturns = true
				earlySignatures[strings.TrimPrefix(src(is.Cond), "returnSignature == ")] = true
			}
		}
	}
	// every value checkCommandOutputParameters can return without an error
	possible := map[string]bool{}
	ast.Inspect(findFunc(cs, "checkCommandOutputParameters"), func(x ast.Node) bool {
		if ret, ok := x.(*ast.ReturnStmt); ok && len(ret.Results) == 2 && src(ret.Results[1]) == "nil" {
			possible[src(ret.Results[0])] = true
		}
		return true
	})
	body := goFuncBody(closure)
	var perCase []string
	covered := map[string]bool{}
	for k := range earlySignatures {
		covered[k] = true
	}
	var theSwitch *ast.SwitchStmt
	for _, s := range body.List {
		if sw, ok := s.(*ast.SwitchStmt); ok && src(sw.Tag) == "returnSignature" {
			theSwitch = sw
			for _, c := range sw.Body.List {
				cc := c.(*ast.CaseClause)
				for _, l := range cc.List {
					covered[src(l)] = true
					perCase = append(perCase, fmt.Sprintf("(%q, %s)", src(l), nats(sendCounts(cc.Body, wrapMake.name))))
				}
			}
		}
	}
	if theSwitch == nil {
		die("newYarnSpinnerCommand: the goroutine's switch over returnSignature was not found")
	}
	signaturesCovered := len(possible) > 0
	for k := range possible {
		if !covered[k] {
			signaturesCovered = false
		}
	}
	switchExhaustive[theSwitch] = signaturesCovered
	wrapCounts := sendCounts(body.List, wrapMake.name)
	// every send of the closure outside the goroutine is an immediate value followed by `return errChan`
	closureSendsOnMade := true
	ast.Inspect(closure, func(x ast.Node) bool {
		if s, ok := x.(*ast.SendStmt); ok && src(s.Chan) != wrapMake.name {
			closureSendsOnMade = false
		}
		return true
	})

	// ---- waitCommand
	wc := findFunc(cs, "waitCommand")
	waitMake, waitPerCall := theMake(wc)
	waitCounts := sendCounts(goFuncBody(wc).List, waitMake.name)

	// ---- chanWithImmediateValue, commandStorer.call
	imm := findFunc(cs, "chanWithImmediateValue")
	immMake, immPerCall := theMake(imm)
	immCounts := sendCounts(imm.Body.List, immMake.name)
	call := findFunc(cs, "call")
	unkMake, unkPerCall := theMake(call)

	// ---- the library never closes a channel
	closes := false
	for _, f := range []*ast.File{cs, rn} {
		ast.Inspect(f, func(x ast.Node) bool {
			if c, ok := x.(*ast.CallExpr); ok && src(c.Fun) == "close" {
				closes = true
			}
			return true
		})
	}

	// ---- the polls
	type poll struct{ selectDefault, valueClears, defaultReturnsWaiting, defaultKeeps bool }
	analyse := func(sel *ast.SelectStmt, ch string) poll {
		var p poll
		recv, def := false, false
		for _, c := range sel.Body.List {
			cc := c.(*ast.CommClause)
			if cc.Comm == nil {
				def = true
				for _, s := range cc.Body {
					if src(s) == "return nil, ErrWaitingForCommandCompletion" {
						p.defaultReturnsWaiting = true
					}
					if src(s) == "dr.commandErrChan = "+ch {
						p.defaultKeeps = true
					}
				}
				continue
			}
			if as, ok := cc.Comm.(*ast.AssignStmt); ok && len(as.Rhs) == 1 && src(as.Rhs[0]) == "<-"+ch {
				recv = true
				for _, s := range cc.Body {
					if src(s) == "dr.commandErrChan = nil" {
						p.valueClears = true
					}
				}
			}
		}
		p.selectDefault = recv && def && len(sel.Body.List) == 2
		return p
	}
	var nextPoll poll
	nextGuard := false
	next := findFunc(rn, "Next")
	if len(next.Body.List) > 0 {
		if is, ok := next.Body.List[0].(*ast.IfStmt); ok && src(is.Cond) == "dr.commandErrChan != nil" {
			nextGuard = true
			for _, s := range is.Body.List {
				if sel, ok := s.(*ast.SelectStmt); ok {
					nextPoll = analyse(sel, "dr.commandErrChan")
				}
			}
			if !nextPoll.selectDefault {
				// another shape of poll: is nil at least assigned somewhere in the block
				ast.Inspect(is.Body, func(x ast.Node) bool {
					if s, ok := x.(ast.Stmt); ok && src(s) == "dr.commandErrChan = nil" {
						nextPoll.valueClears = true
					}
					return true
				})
			}
		}
	}
	var execPoll poll
	ecs := findFunc(rn, "executeCommandStatement")
	chanVar := ""
	for _, s := range ecs.Body.List {
		if as, ok := s.(*ast.AssignStmt); ok && len(as.Rhs) == 1 && strings.HasPrefix(src(as.Rhs[0]), "dr.commandStorer.call(") {
			chanVar = src(as.Lhs[0])
		}
		if sel, ok := s.(*ast.SelectStmt); ok && chanVar != "" {
			execPoll = analyse(sel, chanVar)
		}
	}
	restoreClears := false
	for _, s := range findFunc(rn, "RestoreAt").Body.List {
		if src(s) == "dr.commandErrChan = nil" {
			restoreClears = true
		}
	}

	fmt.Println("/-! GENERATED by tools/chanfacts from command_storer.go and runner.go — do not edit -/")
	fmt.Println("namespace Ysgo.Generated.ChanFacts")
	fmt.Println("/-- newYarnSpinnerCommand: `make(chan error, cap)` is lexically inside the closure returned for each call -/")
	fmt.Printf("def perCall : Bool := %v\n", perCall)
	fmt.Printf("def cap : Nat := %d\n", wrapMake.capacity)
	fmt.Println("/-- the numbers of sends on that channel along the paths of the goroutine: per case of its switch, and overall -/")
	fmt.Println("def wrapperSendsPerCase : List (String × List Nat) := [" + strings.Join(perCase, ", ") + "]")
	fmt.Println("def wrapperSends : List Nat := " + nats(wrapCounts))
	fmt.Println("/-- the switch and the early block cover every signature checkCommandOutputParameters accepts; every path of the early block returns -/")
	fmt.Printf("def signaturesCovered : Bool := %v\n", signaturesCovered)
	fmt.Printf("def chanBranchReturns : Bool := %v\n", chanBranchReturns)
	fmt.Println("/-- every send of the closure is on the channel it made -/")
	fmt.Printf("def closureSendsOnMade : Bool := %v\n", closureSendsOnMade)
	fmt.Println("/-- waitCommand: the channel is made in the function body; capacity; sends of its goroutine -/")
	fmt.Printf("def waitPerCall : Bool := %v\n", waitPerCall)
	fmt.Printf("def waitCap : Nat := %d\n", waitMake.capacity)
	fmt.Println("def waitSends : List Nat := " + nats(waitCounts))
	fmt.Println("/-- chanWithImmediateValue -/")
	fmt.Printf("def immPerCall : Bool := %v\n", immPerCall)
	fmt.Printf("def immCap : Nat := %d\n", immMake.capacity)
	fmt.Println("def immSends : List Nat := " + nats(immCounts))
	fmt.Println("/-- commandStorer.call, unknown command -/")
	fmt.Printf("def unknownPerCall : Bool := %v\n", unkPerCall)
	fmt.Printf("def unknownCap : Nat := %d\n", unkMake.capacity)
	fmt.Println("/-- `close(` occurs in command_storer.go or runner.go -/")
	fmt.Printf("def libraryCloses : Bool := %v\n", closes)
	fmt.Println("/-- the poll at the top of Next: guarded by `dr.commandErrChan != nil`; a select with one receive case and a default;")
	fmt.Println("the value branch assigns nil to commandErrChan; the default branch returns ErrWaitingForCommandCompletion -/")
	fmt.Printf("def nextPollGuarded : Bool := %v\n", nextGuard)
	fmt.Printf("def nextPollIsSelectDefault : Bool := %v\n", nextPoll.selectDefault)
	fmt.Printf("def pollValueBranchClears : Bool := %v\n", nextPoll.valueClears)
	fmt.Printf("def nextPollDefaultReturnsWaiting : Bool := %v\n", nextPoll.defaultReturnsWaiting)
	fmt.Println("/-- the poll of executeCommandStatement on the channel returned by the dispatch; its default branch keeps the channel -/")
	fmt.Printf("def execPollIsSelectDefault : Bool := %v\n", execPoll.selectDefault)
	fmt.Printf("def execDefaultKeepsChannel : Bool := %v\n", execPoll.defaultKeeps)
	fmt.Println("/-- RestoreAt assigns nil to commandErrChan -/")
	fmt.Printf("def restoreClears : Bool := %v\n", restoreClears)
	fmt.Println("end Ysgo.Generated.ChanFacts")
}
