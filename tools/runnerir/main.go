// runnerir translates the bodies of the methods of runner.go into the Go statement/expression IR of
// lean/Ysgo/Spec/RunnerIR.lean (printed on stdout as lean/Ysgo/Generated/RunnerIR.lean). The translation is purely
// syntactic: it decides no meaning. Locals are numbered by order of declaration (renaming them is neutral), comments,
// parentheses and error-message texts are dropped (fmt.Errorf("…: %w", e) ↦ wrap e; any other fmt.Errorf / errors.New ↦
// the n-th error of the function), every switch is written as the if-chain it abbreviates. Whatever is not understood
// becomes an `unsupported` node, which has no value in the Lean interpreter.
//
// usage (from /verif/tools): go run ./runnerir <repo>
package main

import (
	"fmt"
	"go/ast"
	"go/parser"
	"go/token"
	"go/types"
	"os"
	"path/filepath"
	"strconv"
	"strings"
)

// the functions translated, in the order they are printed
var wanted = []string{
	"Next", "isWaitingForChoice", "executeSetStatement", "executeJumpStatement", "incrementNodeTrackingIfAllowed",
	"executeIfStatement", "executeCommandStatement", "executeCallStatement", "executeDeclareStatement",
	"RestoreAt", "Snapshot", "nextStatement",
}

func q(s string) string { return strconv.Quote(s) }

type tr struct {
	fn      string
	recv    string
	pkgs    map[string]bool
	scopes  []map[string]int
	nlocals int
	nerr    int
}

func (t *tr) push() { t.scopes = append(t.scopes, map[string]int{}) }
func (t *tr) pop()  { t.scopes = t.scopes[:len(t.scopes)-1] }

func (t *tr) declare(name string) int {
	i := t.nlocals
	t.nlocals++
	t.scopes[len(t.scopes)-1][name] = i
	return i
}

func (t *tr) lookup(name string) (int, bool) {
	for k := len(t.scopes) - 1; k >= 0; k-- {
		if i, ok := t.scopes[k][name]; ok {
			return i, true
		}
	}
	return 0, false
}

func unsupportedE(what string) string { return "(.unsupported " + q(what) + ")" }

func lst(xs []string) string { return "[" + strings.Join(xs, ", ") + "]" }

func (t *tr) isPkg(e ast.Expr) (string, bool) {
	id, ok := e.(*ast.Ident)
	if !ok {
		return "", false
	}
	if _, local := t.lookup(id.Name); local || id.Name == t.recv {
		return "", false
	}
	return id.Name, t.pkgs[id.Name]
}

// position of the argument formatted by %w, counted among the verbs of the format; -1 if there is none
func wrapArg(format string) int {
	n := 0
	for i := 0; i < len(format); i++ {
		if format[i] != '%' {
			continue
		}
		i++
		if i >= len(format) {
			break
		}
		if format[i] == '%' {
			continue
		}
		for i < len(format) && strings.ContainsRune("+-# 0123456789.[]*", rune(format[i])) {
			i++
		}
		if i < len(format) && format[i] == 'w' {
			return n
		}
		n++
	}
	return -1
}

func (t *tr) exprs(es []ast.Expr) string {
	out := make([]string, len(es))
	for i, e := range es {
		out[i] = t.expr(e)
	}
	return lst(out)
}

func (t *tr) expr(e ast.Expr) string {
	switch x := e.(type) {
	case *ast.ParenExpr:
		return t.expr(x.X)
	case *ast.Ident:
		switch x.Name {
		case "nil":
			return ".nilE"
		case "true":
			return "(.boolE true)"
		case "false":
			return "(.boolE false)"
		case "_":
			return unsupportedE("blank identifier as a value")
		}
		if i, ok := t.lookup(x.Name); ok {
			return fmt.Sprintf("(.loc %d)", i)
		}
		if x.Name == t.recv {
			return ".recv"
		}
		return "(.const " + q(x.Name) + ")"
	case *ast.BasicLit:
		switch x.Kind {
		case token.INT:
			if n, err := strconv.ParseUint(x.Value, 0, 63); err == nil {
				return fmt.Sprintf("(.intE %d)", n)
			}
		case token.STRING:
			if s, err := strconv.Unquote(x.Value); err == nil {
				return "(.strE " + q(s) + ")"
			}
		}
		return unsupportedE("literal " + x.Value)
	case *ast.SelectorExpr:
		if p, ok := t.isPkg(x.X); ok {
			return "(.const " + q(p+"."+x.Sel.Name) + ")"
		}
		if id, ok := x.X.(*ast.Ident); ok && id.Name == t.recv {
			if _, shadowed := t.lookup(id.Name); !shadowed {
				return "(.sel " + t.expr(x.X) + " " + q(fieldName(x.Sel.Name)) + ")"
			}
		}
		return "(.sel " + t.expr(x.X) + " " + q(x.Sel.Name) + ")"
	case *ast.IndexExpr:
		return "(.idx " + t.expr(x.X) + " " + t.expr(x.Index) + ")"
	case *ast.SliceExpr:
		if x.Low != nil && x.High == nil && x.Max == nil && !x.Slice3 {
			return "(.sliceFrom " + t.expr(x.X) + " " + t.expr(x.Low) + ")"
		}
		return unsupportedE("slice expression")
	case *ast.StarExpr:
		return "(.deref " + t.expr(x.X) + ")"
	case *ast.UnaryExpr:
		switch x.Op {
		case token.NOT:
			return "(.un \"!\" " + t.expr(x.X) + ")"
		case token.AND:
			if cl, ok := x.X.(*ast.CompositeLit); ok {
				return t.expr(cl)
			}
		}
		return unsupportedE("unary " + x.Op.String())
	case *ast.BinaryExpr:
		return "(.bin " + q(x.Op.String()) + " " + t.expr(x.X) + " " + t.expr(x.Y) + ")"
	case *ast.CompositeLit:
		if x.Type == nil {
			return unsupportedE("untyped composite literal")
		}
		ty := strings.TrimLeft(types.ExprString(x.Type), "*&")
		var names, vals []string
		for _, el := range x.Elts {
			kv, ok := el.(*ast.KeyValueExpr)
			if !ok {
				return unsupportedE("composite literal without keys")
			}
			k, ok := kv.Key.(*ast.Ident)
			if !ok {
				return unsupportedE("composite literal with a computed key")
			}
			names = append(names, q(k.Name))
			vals = append(vals, t.expr(kv.Value))
		}
		return "(.lit " + q(ty) + " " + lst(names) + " " + lst(vals) + ")"
	case *ast.CallExpr:
		if x.Ellipsis != token.NoPos {
			return unsupportedE("variadic call")
		}
		switch f := x.Fun.(type) {
		case *ast.Ident:
			if _, local := t.lookup(f.Name); local {
				return unsupportedE("call of a local")
			}
			if f.Name == "make" && len(x.Args) >= 1 {
				args := []string{"(.const " + q(types.ExprString(x.Args[0])) + ")"}
				for _, a := range x.Args[1:] {
					args = append(args, t.expr(a))
				}
				return "(.call \"make\" " + lst(args) + ")"
			}
			return "(.call " + q(f.Name) + " " + t.exprs(x.Args) + ")"
		case *ast.SelectorExpr:
			if p, ok := t.isPkg(f.X); ok {
				name := p + "." + f.Sel.Name
				if name == "fmt.Errorf" || name == "errors.New" {
					if len(x.Args) == 0 {
						return unsupportedE(name + " without arguments")
					}
					lit, ok := x.Args[0].(*ast.BasicLit)
					if !ok || lit.Kind != token.STRING {
						return unsupportedE(name + " with a computed text")
					}
					format, err := strconv.Unquote(lit.Value)
					if err != nil {
						return unsupportedE(name + " with an unreadable text")
					}
					if name == "fmt.Errorf" {
						if k := wrapArg(format); k >= 0 {
							if 1+k >= len(x.Args) {
								return unsupportedE("%w without its argument")
							}
							return "(.wrap " + t.expr(x.Args[1+k]) + ")"
						}
					}
					n := t.nerr
					t.nerr++
					return fmt.Sprintf("(.newErr %d)", n)
				}
				return "(.call " + q(name) + " " + t.exprs(x.Args) + ")"
			}
			return "(.mcall " + t.expr(f.X) + " " + q(f.Sel.Name) + " " + t.exprs(x.Args) + ")"
		}
		return unsupportedE("call of a computed function")
	}
	return unsupportedE(fmt.Sprintf("%T", e))
}

func (t *tr) lvalue(e ast.Expr, define bool) string {
	switch x := e.(type) {
	case *ast.ParenExpr:
		return t.lvalue(x.X, define)
	case *ast.Ident:
		if x.Name == "_" {
			return ".blank"
		}
		if define {
			if i, ok := t.scopes[len(t.scopes)-1][x.Name]; ok {
				return fmt.Sprintf("(.loc %d)", i)
			}
			return fmt.Sprintf("(.loc %d)", t.declare(x.Name))
		}
		if i, ok := t.lookup(x.Name); ok {
			return fmt.Sprintf("(.loc %d)", i)
		}
		return "(.unsupported " + q("assignment to "+x.Name) + ")"
	case *ast.SelectorExpr:
		if id, ok := x.X.(*ast.Ident); ok && id.Name == t.recv && !define {
			if _, shadowed := t.lookup(id.Name); !shadowed {
				return "(.field " + q(fieldName(x.Sel.Name)) + ")"
			}
		}
	case *ast.IndexExpr:
		if s, ok := x.X.(*ast.SelectorExpr); ok && !define {
			if id, ok := s.X.(*ast.Ident); ok && id.Name == t.recv {
				if _, shadowed := t.lookup(id.Name); !shadowed {
					return "(.fieldIdx " + q(fieldName(s.Sel.Name)) + " " + t.expr(x.Index) + ")"
				}
			}
		}
	}
	return "(.unsupported " + q(fmt.Sprintf("assignment to %T", e)) + ")"
}

func unsupportedS(what string) string { return "(.unsupported " + q(what) + ")" }

func pure(e ast.Expr) bool {
	switch x := e.(type) {
	case *ast.Ident:
		return true
	case *ast.ParenExpr:
		return pure(x.X)
	case *ast.SelectorExpr:
		return pure(x.X)
	case *ast.StarExpr:
		return pure(x.X)
	}
	return false
}

// fieldCanon maps the fields of DialogueRunner to the names the Lean side uses, BY TYPE: the struct has one field of each
// type, so a field is identified by what it holds, not by what it is called (renaming a field is a neutral refactoring).
// A type that occurs twice (a new field) keeps the written names, and the theorems see a name they do not know.
var fieldCanon = map[string]string{}

var canonByType = map[string]string{
	"container.Stack[*statementQueue]": "statementsToRun", "*tree.Statement": "lastStatement", "<-chan error": "commandErrChan", "chan error": "commandErrChan",
	"map[string]variable.Value": "variableSnapshot", "map[string]int": "visitedNodes", "string": "currentNode", "variable.Storer": "variableStorer",
	"*functionStorer": "functionStorer", "*commandStorer": "commandStorer", "*tree.Dialogue": "dialogue", "markup.LineParser": "lineParser",
}

func typeString(e ast.Expr) string {
	switch x := e.(type) {
	case *ast.Ident:
		return x.Name
	case *ast.StarExpr:
		return "*" + typeString(x.X)
	case *ast.SelectorExpr:
		return typeString(x.X) + "." + x.Sel.Name
	case *ast.MapType:
		return "map[" + typeString(x.Key) + "]" + typeString(x.Value)
	case *ast.ArrayType:
		return "[]" + typeString(x.Elt)
	case *ast.ChanType:
		switch x.Dir {
		case ast.RECV:
			return "<-chan " + typeString(x.Value)
		case ast.SEND:
			return "chan<- " + typeString(x.Value)
		}
		return "chan " + typeString(x.Value)
	case *ast.IndexExpr:
		return typeString(x.X) + "[" + typeString(x.Index) + "]"
	}
	return "?"
}

func collectFields(file *ast.File) {
	for _, d := range file.Decls {
		gd, ok := d.(*ast.GenDecl)
		if !ok {
			continue
		}
		for _, sp := range gd.Specs {
			ts, ok := sp.(*ast.TypeSpec)
			if !ok || ts.Name.Name != "DialogueRunner" {
				continue
			}
			st, ok := ts.Type.(*ast.StructType)
			if !ok {
				continue
			}
			count := map[string]int{}
			for _, f := range st.Fields.List {
				count[typeString(f.Type)] += len(f.Names)
			}
			for _, f := range st.Fields.List {
				ty := typeString(f.Type)
				if canon, ok := canonByType[ty]; ok && count[ty] == 1 {
					for _, n := range f.Names {
						fieldCanon[n.Name] = canon
					}
				}
			}
		}
	}
}

func fieldName(n string) string {
	if c, ok := fieldCanon[n]; ok {
		return c
	}
	return n
}

func optLoc(i int, ok bool) string {
	if !ok {
		return "none"
	}
	return fmt.Sprintf("(some %d)", i)
}

func fmtList(out []string, ind string) string {
	if len(out) == 0 {
		return "[]"
	}
	return "[\n" + ind + "  " + strings.Join(out, ",\n"+ind+"  ") + "]"
}

func (t *tr) stmts(ss []ast.Stmt, ind string) []string {
	var out []string
	for _, s := range ss {
		out = append(out, t.stmt(s, ind+"  ")...)
	}
	return out
}

func (t *tr) block(ss []ast.Stmt, ind string) string { return fmtList(t.stmts(ss, ind), ind) }

// the clauses of a switch as the if-chain they abbreviate (the default clause last, wherever it is written)
func (t *tr) chain(clauses []*ast.CaseClause, cond func(*ast.CaseClause) string, ind string) []string {
	var dflt *ast.CaseClause
	var cases []*ast.CaseClause
	for _, c := range clauses {
		if c.List == nil {
			dflt = c
		} else {
			cases = append(cases, c)
		}
	}
	var build func(i int, ind string) []string
	build = func(i int, ind string) []string {
		if i == len(cases) {
			if dflt == nil {
				return nil
			}
			t.push()
			defer t.pop()
			return t.stmts(dflt.Body, ind)
		}
		c := cond(cases[i])
		t.push()
		thn := t.block(cases[i].Body, ind)
		t.pop()
		els := fmtList(build(i+1, ind+"  "), ind)
		return []string{"(.ite [] " + c + " " + thn + " " + els + ")"}
	}
	return build(0, ind)
}

func (t *tr) stmt(s ast.Stmt, ind string) []string {
	switch x := s.(type) {
	case *ast.EmptyStmt:
		return nil
	case *ast.BlockStmt:
		t.push()
		defer t.pop()
		var out []string
		for _, s := range x.List {
			out = append(out, t.stmt(s, ind)...)
		}
		return out
	case *ast.ExprStmt:
		return []string{"(.expr " + t.expr(x.X) + ")"}
	case *ast.IncDecStmt:
		if x.Tok == token.INC {
			return []string{"(.inc " + t.lvalue(x.X, false) + ")"}
		}
		return []string{unsupportedS("decrement")}
	case *ast.AssignStmt:
		if x.Tok != token.ASSIGN && x.Tok != token.DEFINE {
			return []string{unsupportedS("assignment operator " + x.Tok.String())}
		}
		rhs := t.exprs(x.Rhs) // before the left side: a new variable is not in scope in its own initialiser
		lhs := make([]string, len(x.Lhs))
		for i, l := range x.Lhs {
			lhs[i] = t.lvalue(l, x.Tok == token.DEFINE)
		}
		return []string{"(.assign " + lst(lhs) + " " + rhs + ")"}
	case *ast.DeclStmt:
		gd, ok := x.Decl.(*ast.GenDecl)
		if !ok || gd.Tok != token.VAR {
			return []string{unsupportedS("declaration")}
		}
		var out []string
		for _, sp := range gd.Specs {
			vs := sp.(*ast.ValueSpec)
			if len(vs.Values) != 0 {
				rhs := t.exprs(vs.Values)
				lhs := make([]string, len(vs.Names))
				for i, n := range vs.Names {
					lhs[i] = fmt.Sprintf("(.loc %d)", t.declare(n.Name))
				}
				out = append(out, "(.assign "+lst(lhs)+" "+rhs+")")
				continue
			}
			if vs.Type == nil {
				out = append(out, unsupportedS("var without type"))
				continue
			}
			for _, n := range vs.Names {
				out = append(out, fmt.Sprintf("(.var %d %s)", t.declare(n.Name), q(types.ExprString(vs.Type))))
			}
		}
		return out
	case *ast.IfStmt:
		t.push()
		defer t.pop()
		init := "[]"
		if x.Init != nil {
			init = lst(t.stmt(x.Init, ind))
		}
		c := t.expr(x.Cond)
		t.push()
		thn := t.block(x.Body.List, ind)
		t.pop()
		els := "[]"
		switch e := x.Else.(type) {
		case nil:
		case *ast.BlockStmt:
			t.push()
			els = t.block(e.List, ind)
			t.pop()
		default:
			els = fmtList(t.stmt(e, ind+"  "), ind)
		}
		return []string{"(.ite " + init + " " + c + " " + thn + " " + els + ")"}
	case *ast.SwitchStmt:
		if x.Init != nil {
			return []string{unsupportedS("switch with an init statement")}
		}
		var clauses []*ast.CaseClause
		for _, c := range x.Body.List {
			cc := c.(*ast.CaseClause)
			for _, b := range cc.Body {
				if br, ok := b.(*ast.BranchStmt); ok && br.Tok == token.FALLTHROUGH {
					return []string{unsupportedS("fallthrough")}
				}
			}
			clauses = append(clauses, cc)
		}
		if x.Tag != nil && !pure(x.Tag) {
			return []string{unsupportedS("switch on a computed tag")}
		}
		cond := func(c *ast.CaseClause) string {
			var r string
			for i, e := range c.List {
				one := t.expr(e)
				if x.Tag != nil {
					one = "(.bin \"==\" " + t.expr(x.Tag) + " " + one + ")"
				}
				if i == 0 {
					r = one
				} else {
					r = "(.bin \"||\" " + r + " " + one + ")"
				}
			}
			return r
		}
		return t.chain(clauses, cond, ind)
	case *ast.RangeStmt:
		if x.Tok != token.DEFINE {
			return []string{unsupportedS("range without :=")}
		}
		xs := t.expr(x.X)
		t.push()
		defer t.pop()
		name := func(e ast.Expr) (int, bool, bool) {
			if e == nil {
				return 0, false, true
			}
			id, ok := e.(*ast.Ident)
			if !ok {
				return 0, false, false
			}
			if id.Name == "_" {
				return 0, false, true
			}
			return t.declare(id.Name), true, true
		}
		k, hasK, ok1 := name(x.Key)
		v, hasV, ok2 := name(x.Value)
		if !ok1 || !ok2 {
			return []string{unsupportedS("range into a place")}
		}
		t.push()
		body := t.block(x.Body.List, ind)
		t.pop()
		return []string{"(.range " + optLoc(k, hasK) + " " + optLoc(v, hasV) + " " + xs + " " + body + ")"}
	case *ast.ReturnStmt:
		if len(x.Results) == 1 {
			if c, ok := x.Results[0].(*ast.CallExpr); ok {
				if f, ok := c.Fun.(*ast.SelectorExpr); ok && f.Sel.Name == t.fn {
					if id, ok := f.X.(*ast.Ident); ok && id.Name == t.recv {
						if _, shadowed := t.lookup(id.Name); !shadowed {
							return []string{"(.tail " + t.exprs(c.Args) + ")"}
						}
					}
				}
			}
		}
		if len(x.Results) == 0 {
			return []string{unsupportedS("bare return")}
		}
		return []string{"(.ret " + t.exprs(x.Results) + ")"}
	case *ast.SelectStmt:
		var recvC, dfltC *ast.CommClause
		for _, c := range x.Body.List {
			cc := c.(*ast.CommClause)
			if cc.Comm == nil {
				dfltC = cc
			} else if recvC == nil {
				recvC = cc
			} else {
				return []string{unsupportedS("select with several communications")}
			}
		}
		if recvC == nil || dfltC == nil {
			return []string{unsupportedS("select without default or without communication")}
		}
		var ch ast.Expr
		var lhs ast.Expr
		switch c := recvC.Comm.(type) {
		case *ast.ExprStmt:
			if u, ok := c.X.(*ast.UnaryExpr); ok && u.Op == token.ARROW {
				ch = u.X
			}
		case *ast.AssignStmt:
			if c.Tok == token.DEFINE && len(c.Lhs) == 1 && len(c.Rhs) == 1 {
				if u, ok := c.Rhs[0].(*ast.UnaryExpr); ok && u.Op == token.ARROW {
					ch, lhs = u.X, c.Lhs[0]
				}
			}
		}
		if ch == nil {
			return []string{unsupportedS("select communication")}
		}
		chs := t.expr(ch)
		t.push()
		v, hasV := 0, false
		if lhs != nil {
			id, ok := lhs.(*ast.Ident)
			if !ok {
				t.pop()
				return []string{unsupportedS("select receive into a place")}
			}
			if id.Name != "_" {
				v, hasV = t.declare(id.Name), true
			}
		}
		rb := t.block(recvC.Body, ind)
		t.pop()
		t.push()
		db := t.block(dfltC.Body, ind)
		t.pop()
		return []string{"(.select " + optLoc(v, hasV) + " " + chs + " " + rb + " " + db + ")"}
	}
	return []string{unsupportedS(fmt.Sprintf("%T", s))}
}

func main() {
	if len(os.Args) != 2 {
		fmt.Fprintln(os.Stderr, "usage: runnerir <repo>")
		os.Exit(2)
	}
	fset := token.NewFileSet()
	file, err := parser.ParseFile(fset, filepath.Join(os.Args[1], "runner.go"), nil, 0)
	if err != nil {
		fmt.Fprintln(os.Stderr, err)
		os.Exit(1)
	}
	pkgs := map[string]bool{}
	for _, im := range file.Imports {
		p, _ := strconv.Unquote(im.Path.Value)
		name := p[strings.LastIndex(p, "/")+1:]
		if im.Name != nil {
			name = im.Name.Name
		}
		pkgs[name] = true
	}
	collectFields(file)
	decls := map[string]*ast.FuncDecl{}
	for _, d := range file.Decls {
		if fd, ok := d.(*ast.FuncDecl); ok && fd.Recv != nil && fd.Body != nil {
			if _, dup := decls[fd.Name.Name]; dup {
				fmt.Fprintln(os.Stderr, "two methods named", fd.Name.Name)
				os.Exit(1)
			}
			decls[fd.Name.Name] = fd
		}
	}
	var b strings.Builder
	b.WriteString("import Ysgo.Spec.RunnerIR\n/-! GENERATED by tools/runnerir from runner.go — do not edit -/\nnamespace Ysgo.Generated\nopen Ysgo.RunnerIR\n")
	b.WriteString("/-- the methods of runner.go as written in the source: locals numbered by order of declaration, switches as if-chains, error texts dropped -/\n")
	var names []string
	for _, name := range wanted {
		fd, ok := decls[name]
		if !ok {
			continue // the theorems about it fail: the interpreter finds no such function
		}
		t := &tr{fn: name, pkgs: pkgs}
		if len(fd.Recv.List) == 1 && len(fd.Recv.List[0].Names) == 1 {
			t.recv = fd.Recv.List[0].Names[0].Name
		}
		t.push()
		nparams := 0
		for _, f := range fd.Type.Params.List {
			for _, n := range f.Names {
				t.declare(n.Name)
				nparams++
			}
			if len(f.Names) == 0 {
				t.declare(fmt.Sprintf("_%d", nparams))
				nparams++
			}
		}
		if fd.Type.Results != nil {
			for _, f := range fd.Type.Results.List {
				for _, n := range f.Names {
					t.declare(n.Name)
				}
			}
		}
		t.push()
		body := t.block(fd.Body.List, "  ")
		def := "fn_" + name
		fmt.Fprintf(&b, "def %s : FnDef := { name := %s, nparams := %d, nlocals := %d, body := %s }\n", def, q(name), nparams, t.nlocals, body)
		names = append(names, def)
	}
	fmt.Fprintf(&b, "def runnerSrc : List FnDef := [%s]\n", strings.Join(names, ", "))
	b.WriteString("end Ysgo.Generated\n")
	fmt.Print(b.String())
}
