// Command evalir translates every function of evaluator.go (evaluateExpression, evaluateBinaryOperation, xor,
// evaluateFunctionCall) into a Lean data term of the types Ysgo.GoIR.GE / GS (lean/Ysgo/Spec/GoIR.lean): a deep embedding
// of the Go statements and expressions as they are written. Props/C02IR.lean interprets the data and proves it equal to the
// hand-written model's `eval` for every expression, store and world, so the control flow of the model is re-tied to the
// source on every run.
//
// The translation is purely syntactic: it decides no meaning. What it does: number the local variables of a function in
// order of declaration (parameters first; Go's block scoping is followed, so a redeclared name in an inner block is a new
// variable), drop comments, blank lines and parentheses, and replace the message of a fmt.Errorf by the ordinal of the
// site in its function and whether the format contains %w. Anything outside the subset becomes an `.unsupported` node, to
// which the interpreter gives no value.
//
// usage: evalir <repository root>     (prints lean/Ysgo/Generated/EvalIR.lean)
package main

import (
	"fmt"
	"go/ast"
	"go/parser"
	"go/printer"
	"go/token"
	"os"
	"path/filepath"
	"strconv"
	"strings"
)

var fset = token.NewFileSet()

func q(s string) string { return strconv.Quote(s) }

func src(n ast.Node) string {
	var b strings.Builder
	printer.Fprint(&b, fset, n)
	return strings.Join(strings.Fields(b.String()), " ")
}

// tr is the state of the translation of one function
type tr struct {
	fn      string
	imports map[string]bool  // names of the imported packages
	scopes  []map[string]int // innermost last
	next    int              // next variable index
	sites   int              // fmt.Errorf sites seen so far
}

func (t *tr) push() { t.scopes = append(t.scopes, map[string]int{}) }
func (t *tr) pop()  { t.scopes = t.scopes[:len(t.scopes)-1] }

func (t *tr) lookup(name string) (int, bool) {
	for i := len(t.scopes) - 1; i >= 0; i-- {
		if v, ok := t.scopes[i][name]; ok {
			return v, true
		}
	}
	return 0, false
}

// declare introduces a new variable in the innermost scope
func (t *tr) declare(name string) int {
	i := t.next
	t.next++
	if name != "_" {
		t.scopes[len(t.scopes)-1][name] = i
	}
	return i
}

func unsupportedE(what string) string { return "(.unsupported " + q(what) + ")" }
func unsupportedS(what string) string { return "(.unsupported " + q(what) + ")" }

func (t *tr) exprs(es []ast.Expr) string {
	parts := make([]string, len(es))
	for i, e := range es {
		parts[i] = t.expr(e)
	}
	return "[" + strings.Join(parts, ", ") + "]"
}

func (t *tr) expr(e ast.Expr) string {
	switch x := e.(type) {
	case *ast.ParenExpr:
		return t.expr(x.X)
	case *ast.Ident:
		if i, ok := t.lookup(x.Name); ok {
			return fmt.Sprintf("(.var %d)", i)
		}
		switch x.Name {
		case "nil":
			return ".nil"
		case "true", "false":
			return "(.const " + q(x.Name) + ")"
		}
		return unsupportedE("identifier " + x.Name)
	case *ast.BasicLit:
		switch x.Kind {
		case token.INT:
			if n, err := strconv.ParseUint(x.Value, 0, 32); err == nil {
				return fmt.Sprintf("(.lit %d)", n)
			}
		case token.STRING:
			if s, err := strconv.Unquote(x.Value); err == nil {
				return "(.strlit " + q(s) + ")"
			}
		}
		return unsupportedE("literal " + x.Value)
	case *ast.SelectorExpr:
		if p, ok := x.X.(*ast.Ident); ok {
			if _, local := t.lookup(p.Name); !local && t.imports[p.Name] {
				return "(.const " + q(p.Name+"."+x.Sel.Name) + ")"
			}
		}
		return "(.field " + t.expr(x.X) + " " + q(x.Sel.Name) + ")"
	case *ast.StarExpr:
		return "(.deref " + t.expr(x.X) + ")"
	case *ast.IndexExpr:
		return "(.index " + t.expr(x.X) + " " + t.expr(x.Index) + ")"
	case *ast.UnaryExpr:
		switch x.Op {
		case token.NOT, token.SUB:
			return "(.un " + q(x.Op.String()) + " " + t.expr(x.X) + ")"
		case token.ADD:
			return t.expr(x.X)
		}
		return unsupportedE("unary " + x.Op.String())
	case *ast.BinaryExpr:
		return "(.bin " + q(x.Op.String()) + " " + t.expr(x.X) + " " + t.expr(x.Y) + ")"
	case *ast.CallExpr:
		if x.Ellipsis != token.NoPos {
			return unsupportedE("variadic call")
		}
		switch f := x.Fun.(type) {
		case *ast.Ident:
			if _, local := t.lookup(f.Name); local {
				return unsupportedE("call of a local function value")
			}
			if f.Name == "make" && len(x.Args) >= 1 {
				rest := make([]string, 0, len(x.Args))
				rest = append(rest, "(.typ "+q(src(x.Args[0]))+")")
				for _, a := range x.Args[1:] {
					rest = append(rest, t.expr(a))
				}
				return "(.call \"make\" [" + strings.Join(rest, ", ") + "])"
			}
			return "(.call " + q(f.Name) + " " + t.exprs(x.Args) + ")"
		case *ast.SelectorExpr:
			if p, ok := f.X.(*ast.Ident); ok {
				if _, local := t.lookup(p.Name); !local && t.imports[p.Name] {
					name := p.Name + "." + f.Sel.Name
					if name == "fmt.Errorf" {
						return t.errorf(x)
					}
					return "(.call " + q(name) + " " + t.exprs(x.Args) + ")"
				}
			}
			return "(.mcall " + t.expr(f.X) + " " + q(f.Sel.Name) + " " + t.exprs(x.Args) + ")"
		}
		return unsupportedE("call of " + src(x.Fun))
	}
	return unsupportedE(fmt.Sprintf("%T", e))
}

// errorf: the message is dropped; what is kept is the ordinal of the site in its function, whether the format wraps
// an error (%w) and the arguments
func (t *tr) errorf(x *ast.CallExpr) string {
	site := fmt.Sprintf("%s#%d", t.fn, t.sites)
	t.sites++
	if len(x.Args) == 0 {
		return unsupportedE("fmt.Errorf without format")
	}
	lit, ok := x.Args[0].(*ast.BasicLit)
	if !ok || lit.Kind != token.STRING {
		return unsupportedE("fmt.Errorf with a computed format")
	}
	format, err := strconv.Unquote(lit.Value)
	if err != nil {
		return unsupportedE("fmt.Errorf format")
	}
	wraps := "false"
	if strings.Contains(strings.ReplaceAll(format, "%%", ""), "%w") {
		wraps = "true"
	}
	return "(.errorf " + q(site) + " " + wraps + " " + t.exprs(x.Args[1:]) + ")"
}

func indent(n int) string { return strings.Repeat("  ", n) }

// block translates a list of statements in a new scope
func (t *tr) block(list []ast.Stmt, depth int) string {
	t.push()
	defer t.pop()
	return t.stmts(list, depth)
}

func (t *tr) stmts(list []ast.Stmt, depth int) string {
	var parts []string
	for _, s := range list {
		parts = append(parts, t.stmt(s, depth+1)...)
	}
	if len(parts) == 0 {
		return "[]"
	}
	pad := "\n" + indent(depth+1)
	return "[" + pad + strings.Join(parts, ","+pad) + "]"
}

func (t *tr) stmt(s ast.Stmt, depth int) []string {
	switch x := s.(type) {
	case *ast.EmptyStmt:
		return nil
	case *ast.BlockStmt:
		// a nested block: its declarations get fresh indices, so its statements can be spliced into the sequence
		t.push()
		defer t.pop()
		var parts []string
		for _, s := range x.List {
			parts = append(parts, t.stmt(s, depth)...)
		}
		return parts
	case *ast.AssignStmt:
		if (x.Tok != token.DEFINE && x.Tok != token.ASSIGN) || len(x.Rhs) != 1 {
			return []string{unsupportedS("assignment " + x.Tok.String())}
		}
		// the right-hand side is translated before the left-hand side is declared
		rhs := t.expr(x.Rhs[0])
		idx := make([]string, len(x.Lhs))
		for i, l := range x.Lhs {
			id, ok := l.(*ast.Ident)
			if !ok {
				return []string{unsupportedS("assignment to " + src(l))}
			}
			if x.Tok == token.DEFINE {
				// := declares the names that are new in the innermost scope and assigns the others
				if v, ok := t.scopes[len(t.scopes)-1][id.Name]; ok && id.Name != "_" {
					idx[i] = strconv.Itoa(v)
				} else {
					idx[i] = strconv.Itoa(t.declare(id.Name))
				}
			} else {
				if id.Name == "_" {
					idx[i] = strconv.Itoa(t.declare("_"))
				} else if v, ok := t.lookup(id.Name); ok {
					idx[i] = strconv.Itoa(v)
				} else {
					return []string{unsupportedS("assignment to non-local " + id.Name)}
				}
			}
		}
		return []string{"(.assign [" + strings.Join(idx, ", ") + "] " + rhs + ")"}
	case *ast.ReturnStmt:
		return []string{"(.ret " + t.exprs(x.Results) + ")"}
	case *ast.IfStmt:
		// the scope of an if statement covers its init statement, condition and branches
		t.push()
		defer t.pop()
		var out []string
		if x.Init != nil {
			out = append(out, t.stmt(x.Init, depth)...)
		}
		cond := t.expr(x.Cond)
		thn := t.block(x.Body.List, depth)
		els := "[]"
		switch e := x.Else.(type) {
		case nil:
		case *ast.BlockStmt:
			els = t.block(e.List, depth)
		case *ast.IfStmt:
			parts := t.stmt(e, depth+1)
			pad := "\n" + indent(depth+1)
			els = "[" + pad + strings.Join(parts, ","+pad) + "]"
		default:
			els = "[" + unsupportedS("else") + "]"
		}
		return append(out, "(.ite "+cond+" "+thn+" "+els+")")
	case *ast.SwitchStmt:
		t.push()
		defer t.pop()
		var out []string
		if x.Init != nil {
			out = append(out, t.stmt(x.Init, depth)...)
		}
		tag := "none"
		if x.Tag != nil {
			tag = "(some " + t.expr(x.Tag) + ")"
		}
		var cases []string
		for _, c := range x.Body.List {
			cc, ok := c.(*ast.CaseClause)
			if !ok {
				cases = append(cases, unsupportedS("switch clause"))
				continue
			}
			if len(cc.List) == 0 {
				cases = append(cases, unsupportedS("default clause"))
				continue
			}
			conds := t.exprs(cc.List)
			cases = append(cases, "(.case "+conds+" "+t.block(cc.Body, depth+1)+")")
		}
		pad := "\n" + indent(depth+1)
		return append(out, "(.switch "+tag+" ["+pad+strings.Join(cases, ","+pad)+"])")
	case *ast.RangeStmt:
		if x.Tok != token.DEFINE || x.Value != nil || x.Key == nil {
			return []string{unsupportedS("range form")}
		}
		key, ok := x.Key.(*ast.Ident)
		if !ok {
			return []string{unsupportedS("range key")}
		}
		xs := t.expr(x.X)
		t.push()
		defer t.pop()
		i := t.declare(key.Name)
		return []string{fmt.Sprintf("(.forRange %d %s %s)", i, xs, t.block(x.Body.List, depth))}
	}
	return []string{unsupportedS(fmt.Sprintf("%T", s))}
}

func main() {
	if len(os.Args) < 2 {
		fmt.Fprintln(os.Stderr, "usage: evalir <repository root>")
		os.Exit(2)
	}
	f, err := parser.ParseFile(fset, filepath.Join(os.Args[1], "evaluator.go"), nil, 0)
	if err != nil {
		fmt.Fprintln(os.Stderr, err)
		os.Exit(1)
	}
	imports := map[string]bool{}
	for _, im := range f.Imports {
		path, _ := strconv.Unquote(im.Path.Value)
		name := path[strings.LastIndex(path, "/")+1:]
		if im.Name != nil {
			name = im.Name.Name
		}
		imports[name] = true
	}
	type def struct {
		name   string
		params int
		body   string
	}
	var defs []def
	for _, d := range f.Decls {
		fd, ok := d.(*ast.FuncDecl)
		if !ok {
			continue
		}
		if fd.Recv != nil || fd.Body == nil || fd.Type.TypeParams != nil {
			fmt.Fprintf(os.Stderr, "evalir: %s: methods, bodiless and generic functions are outside the subset\n", fd.Name.Name)
			os.Exit(1)
		}
		t := &tr{fn: fd.Name.Name, imports: imports}
		t.push()
		n := 0
		for _, p := range fd.Type.Params.List {
			if len(p.Names) == 0 {
				t.declare("_")
				n++
			}
			for _, id := range p.Names {
				t.declare(id.Name)
				n++
			}
		}
		if fd.Type.Results != nil {
			for _, r := range fd.Type.Results.List {
				if len(r.Names) > 0 {
					fmt.Fprintf(os.Stderr, "evalir: %s: named results are outside the subset\n", fd.Name.Name)
					os.Exit(1)
				}
			}
		}
		body := t.stmts(fd.Body.List, 0)
		defs = append(defs, def{fd.Name.Name, n, body})
	}
	if len(defs) == 0 {
		fmt.Fprintln(os.Stderr, "evalir: no function found in evaluator.go")
		os.Exit(1)
	}
	fmt.Println("import Ysgo.Spec.GoIR")
	fmt.Println("/-! GENERATED by tools/evalir from evaluator.go — do not edit -/")
	fmt.Println("namespace Ysgo.Generated")
	fmt.Println("open Ysgo.GoIR")
	fmt.Println("set_option maxRecDepth 4096")
	var rows []string
	for _, d := range defs {
		fmt.Printf("/-- the body of `%s` as written in the source (locals numbered in order of declaration, parameters first) -/\n", d.name)
		fmt.Printf("def %s_body : List GS := %s\n", d.name, d.body)
		rows = append(rows, fmt.Sprintf("(%s, %d, %s_body)", q(d.name), d.params, d.name))
	}
	fmt.Println("/-- the functions of evaluator.go: name, number of parameters, body -/")
	fmt.Println("def evalIR : Defs := [" + strings.Join(rows, ", ") + "]")
	fmt.Println("end Ysgo.Generated")
}
