#!/usr/bin/env python3
"""two-pass run of the listener stream.
usage: twopass.py <harness_bin> <ysgo-model> <profile> <seed> <n> <workdir>"""
import subprocess, sys, os, collections
harness, model, profile, seed, n, wd = sys.argv[1:7]
os.makedirs(wd, exist_ok=True)
cases = os.path.join(wd, f"cases-{profile}-{seed}")
impl = os.path.join(wd, f"impl-{profile}-{seed}")
cases2 = os.path.join(wd, f"cases2-{profile}-{seed}")
mod = os.path.join(wd, f"model-{profile}-{seed}")
env = dict(os.environ, GOFLAGS="-mod=mod", GOPROXY="off", GOSUMDB="off", GOTOOLCHAIN="local")
with open(cases, "w") as f:
    subprocess.run([harness, "gen", "listener", profile, seed, n], stdout=f, check=True, env=env)
with open(cases) as fi, open(impl, "w") as fo:
    subprocess.run([harness, "run"], stdin=fi, stdout=fo, check=True, env=env)
# pass 2: line 0 of every case becomes the model's case
with open(impl) as fi, open(cases2, "w") as fo:
    for line in fi:
        cid, k, obs = line.rstrip("\n").split("\t", 2)
        if k != "0":
            continue
        if obs.startswith("TREE "):
            fo.write(f"(case listener {cid} (tree {obs[5:]}))\n")
        elif obs == "LOADERR":
            fo.write(f"(case listener {cid} (loaderr))\n")
        else:
            fo.write(f"(case listener {cid} (panic))\n")
with open(cases2) as fi, open(mod, "w") as fo:
    subprocess.run([model], stdin=fi, stdout=fo, check=True)
a = open(impl).read().split("\n")
b = open(mod).read().split("\n")
stats = collections.Counter()
bad = []
if len(a) != len(b):
    print("LINE COUNT DIFFERS", len(a), len(b))
for x, y in zip(a, b):
    if not x:
        continue
    cid, k, obs = x.split("\t", 2)
    if x == y:
        stats["agree-" + k + "-" + obs.split(" ")[0]] += 1
    else:
        stats["DISAGREE-" + k] += 1
        if len(bad) < 5:
            bad.append((x[:600], y[:600]))
print(profile, seed, dict(stats))
for x, y in bad:
    print("IMPL ", x)
    print("MODEL", y)
sys.exit(1 if bad or len(a) != len(b) else 0)
