// numfacts translates the bodies of the numeric built-ins of base_functions.go (round, roundPlaces, floor, ceil, inc, dec,
// decimal, integer: straight-line float code) into a Lean term of type Ysgo.FE (Spec/FExpr.lean). Props/C19Facts.lean
// interprets the translated terms and proves them equal to the model's definitions for every argument, so this part
// of the model is regenerated from what the code says now.
package main

import (
	"fmt"
	"go/ast"
	"go/parser"
	"go/token"
	"os"
	"path/filepath"
	"strconv"
	"strings"
)

var wanted = []string{"round", "roundPlaces", "floor", "ceil", "inc", "dec", "decimal", "integer"}

func q(s string) string { return strconv.Quote(s) }

var conversions = map[string]bool{"float64": true, "int64": true, "int": true, "time.Duration": true, "rune": true}

// package-level constants of the file being translated: inlined where they are used
var consts = map[string]ast.Expr{}

func collectConsts(f *ast.File) {
	consts = map[string]ast.Expr{}
	for _, d := range f.Decls {
		gd, ok := d.(*ast.GenDecl)
		if !ok || gd.Tok != token.CONST {
			continue
		}
		for _, sp := range gd.Specs {
			vs := sp.(*ast.ValueSpec)
			for i, n := range vs.Names {
				if i < len(vs.Values) {
					consts[n.Name] = vs.Values[i]
				}
			}
		}
	}
}

// selName flattens a.b.c
func selName(e ast.Expr) string {
	switch x := e.(type) {
	case *ast.Ident:
		return x.Name
	case *ast.SelectorExpr:
		if p := selName(x.X); p != "" {
			return p + "." + x.Sel.Name
		}
	}
	return ""
}

func copyLocals(m map[string]string) map[string]string {
	c := map[string]string{}
	for k, v := range m {
		c[k] = v
	}
	return c
}

// stmts translates a straight-line body: definitions are inlined, `if c { return a }` followed by the rest becomes
// `.ite c a rest`, the function's (first) result is the value.
func stmts(list []ast.Stmt, locals map[string]string, fset *token.FileSet) string {
	if len(list) == 0 {
		return "(.unsupported \"no return\")"
	}
	switch s := list[0].(type) {
	case *ast.AssignStmt:
		if s.Tok == token.DEFINE && len(s.Lhs) == 1 && len(s.Rhs) == 1 {
			if id, ok := s.Lhs[0].(*ast.Ident); ok {
				l2 := copyLocals(locals)
				l2[id.Name] = expr(s.Rhs[0], locals, fset)
				return stmts(list[1:], l2, fset)
			}
		}
		return "(.unsupported \"assignment\")"
	case *ast.ReturnStmt:
		if len(s.Results) == 2 {
			// (value, error): a non-nil error is a failure whatever the value
			if id, ok := s.Results[1].(*ast.Ident); !ok || id.Name != "nil" {
				return "(.fail)"
			}
		}
		if len(s.Results) >= 1 {
			return expr(s.Results[0], locals, fset)
		}
		return "(.unsupported \"bare return\")"
	case *ast.IfStmt:
		l2 := copyLocals(locals)
		if s.Init != nil {
			as, ok := s.Init.(*ast.AssignStmt)
			if !ok || as.Tok != token.DEFINE || len(as.Lhs) != 1 || len(as.Rhs) != 1 {
				return "(.unsupported \"if init\")"
			}
			id, ok := as.Lhs[0].(*ast.Ident)
			if !ok {
				return "(.unsupported \"if init\")"
			}
			l2[id.Name] = expr(as.Rhs[0], locals, fset)
		}
		if s.Else != nil {
			return "(.unsupported \"else\")"
		}
		return "(.ite " + expr(s.Cond, l2, fset) + " " + stmts(s.Body.List, l2, fset) + " " + stmts(list[1:], locals, fset) + ")"
	}
	return "(.unsupported " + q(fmt.Sprintf("%T", list[0])) + ")"
}

func paramList(ft *ast.FuncType) string {
	var params []string
	for _, p := range ft.Params.List {
		ty := "?"
		switch t := p.Type.(type) {
		case *ast.Ident:
			ty = t.Name
		case *ast.SelectorExpr:
			if pk, ok := t.X.(*ast.Ident); ok {
				ty = pk.Name + "." + t.Sel.Name
			}
		}
		for _, n := range p.Names {
			params = append(params, "("+q(n.Name)+", "+q(ty)+")")
		}
	}
	return "[" + strings.Join(params, ", ") + "]"
}

// guardOf finds, in a function that returns a function literal, the condition under which that literal refuses its
// arguments: its first statement `if [init;] cond { return ..., err }`.
func guardOf(fd *ast.FuncDecl, fset *token.FileSet) string {
	for _, st := range fd.Body.List {
		ret, ok := st.(*ast.ReturnStmt)
		if !ok || len(ret.Results) != 1 {
			continue
		}
		lit, ok := ret.Results[0].(*ast.FuncLit)
		if !ok || len(lit.Body.List) == 0 {
			continue
		}
		ifs, ok := lit.Body.List[0].(*ast.IfStmt)
		if !ok {
			return "(" + q(fd.Name.Name) + ", " + paramList(lit.Type) + ", (.unsupported \"no leading guard\"))"
		}
		locals := map[string]string{}
		if ifs.Init != nil {
			if as, ok := ifs.Init.(*ast.AssignStmt); ok && as.Tok == token.DEFINE && len(as.Lhs) == 1 && len(as.Rhs) == 1 {
				if id, ok := as.Lhs[0].(*ast.Ident); ok {
					locals[id.Name] = expr(as.Rhs[0], locals, fset)
				}
			}
		}
		return "(" + q(fd.Name.Name) + ", " + paramList(lit.Type) + ", " + expr(ifs.Cond, locals, fset) + ")"
	}
	return "(" + q(fd.Name.Name) + ", [], (.unsupported \"no function literal returned\"))"
}

// expr translates an expression; locals maps local names to their (already translated) definitions.
func expr(e ast.Expr, locals map[string]string, fset *token.FileSet) string {
	switch x := e.(type) {
	case *ast.ParenExpr:
		return expr(x.X, locals, fset)
	case *ast.Ident:
		if d, ok := locals[x.Name]; ok {
			return d
		}
		if c, ok := consts[x.Name]; ok {
			return expr(c, map[string]string{}, fset)
		}
		return "(.var " + q(x.Name) + ")"
	case *ast.BasicLit:
		switch x.Kind {
		case token.INT:
			if n, err := strconv.ParseInt(x.Value, 0, 64); err == nil {
				return fmt.Sprintf("(.lit %d)", n)
			}
		case token.CHAR:
			if r, _, _, err := strconv.UnquoteChar(x.Value[1:len(x.Value)-1], '\''); err == nil {
				return fmt.Sprintf("(.lit %d)", r)
			}
		case token.FLOAT:
			// integral float literals (1.0, 2e0) are the same constant as the integer
			if f, err := strconv.ParseFloat(x.Value, 64); err == nil && f == float64(int64(f)) && f < 1e15 && f > -1e15 {
				return fmt.Sprintf("(.lit %d)", int64(f))
			}
		}
		return "(.unsupported " + q(x.Value) + ")"
	case *ast.UnaryExpr:
		if x.Op == token.SUB {
			return "(.neg " + expr(x.X, locals, fset) + ")"
		}
		if x.Op == token.ADD {
			return expr(x.X, locals, fset)
		}
		if x.Op == token.NOT {
			return "(.lnot " + expr(x.X, locals, fset) + ")"
		}
	case *ast.BinaryExpr:
		switch x.Op {
		case token.ADD, token.SUB, token.MUL, token.QUO, token.REM:
			return "(.bin " + q(x.Op.String()) + " " + expr(x.X, locals, fset) + " " + expr(x.Y, locals, fset) + ")"
		case token.LSS, token.LEQ, token.GTR, token.GEQ, token.EQL, token.NEQ:
			return "(.cmp " + q(x.Op.String()) + " " + expr(x.X, locals, fset) + " " + expr(x.Y, locals, fset) + ")"
		case token.LOR:
			return "(.lor " + expr(x.X, locals, fset) + " " + expr(x.Y, locals, fset) + ")"
		case token.LAND:
			return "(.land " + expr(x.X, locals, fset) + " " + expr(x.Y, locals, fset) + ")"
		}
	case *ast.SelectorExpr:
		if p, ok := x.X.(*ast.Ident); ok {
			return "(.const " + q(p.Name+"."+x.Sel.Name) + ")"
		}
	case *ast.CallExpr:
		name := selName(x.Fun)
		if conversions[name] && len(x.Args) == 1 {
			return "(.conv " + q(name) + " " + expr(x.Args[0], locals, fset) + ")"
		}
		if name != "" {
			args := make([]string, len(x.Args))
			for i, a := range x.Args {
				args[i] = expr(a, locals, fset)
			}
			switch len(args) {
			case 0:
				return "(.call0 " + q(name) + ")"
			case 1:
				return "(.call1 " + q(name) + " " + args[0] + ")"
			case 2:
				return "(.call2 " + q(name) + " " + args[0] + " " + args[1] + ")"
			}
			return "(.unsupported " + q(name+" with more than two arguments") + ")"
		}
	}
	return "(.unsupported " + q(fmt.Sprintf("%T", e)) + ")"
}

func main() {
	repo := os.Getenv("VERIF_REPO")
	if repo == "" {
		repo = "/repo"
	}
	if len(os.Args) > 1 {
		repo = os.Args[1]
	}
	fset := token.NewFileSet()
	f, err := parser.ParseFile(fset, filepath.Join(repo, "base_functions.go"), nil, 0)
	if err != nil {
		fmt.Fprintln(os.Stderr, err)
		os.Exit(1)
	}
	defs := map[string]string{}
	for _, d := range f.Decls {
		fd, ok := d.(*ast.FuncDecl)
		if !ok || fd.Recv != nil || fd.Body == nil {
			continue
		}
		found := false
		for _, w := range wanted {
			if fd.Name.Name == w {
				found = true
			}
		}
		if !found {
			continue
		}
		body := stmts(fd.Body.List, map[string]string{}, fset)
		defs[fd.Name.Name] = "(" + q(fd.Name.Name) + ", " + paramList(fd.Type) + ", " + body + ")"
	}
	fmt.Println("import Ysgo.Spec.FExpr")
	fmt.Println("/-! GENERATED by tools/numfacts from base_functions.go — do not edit -/")
	fmt.Println("namespace Ysgo.Generated")
	fmt.Println("/-- the numeric built-ins as written in the source: (name, parameters with their Go types, returned expression with local definitions inlined) -/")
	fmt.Println("def numBuiltinSrc : List (String × List (String × String) × FE) := [")
	var rows []string
	for _, w := range wanted {
		if d, ok := defs[w]; ok {
			rows = append(rows, "  "+d)
		}
	}
	fmt.Println(strings.Join(rows, ",\n"))
	fmt.Println("]")
	// the guards of the checked random built-ins
	var guards []string
	for _, d := range f.Decls {
		if fd, ok := d.(*ast.FuncDecl); ok && fd.Body != nil && (fd.Name.Name == "checkedRandomRange" || fd.Name.Name == "checkedDice") {
			guards = append(guards, "  "+guardOf(fd, fset))
		}
	}
	fmt.Println("/-- the conditions under which the checked random built-ins refuse their arguments (local definitions inlined) -/")
	fmt.Println("def guardSrc : List (String × List (String × String) × FE) := [")
	fmt.Println(strings.Join(guards, ",\n"))
	fmt.Println("]")
	// the duration arithmetic of <<wait>>
	f2, err := parser.ParseFile(fset, filepath.Join(repo, "command_storer.go"), nil, 0)
	if err != nil {
		fmt.Fprintln(os.Stderr, err)
		os.Exit(1)
	}
	var durs []string
	for _, d := range f2.Decls {
		if fd, ok := d.(*ast.FuncDecl); ok && fd.Body != nil && fd.Recv == nil && fd.Name.Name == "secondsToDuration" {
			durs = append(durs, "  ("+q(fd.Name.Name)+", "+paramList(fd.Type)+", "+stmts(fd.Body.List, map[string]string{}, fset)+")")
		}
	}
	fmt.Println("/-- secondsToDuration of command_storer.go -/")
	fmt.Println("def durationSrc : List (String × List (String × String) × FE) := [")
	fmt.Println(strings.Join(durs, ",\n"))
	fmt.Println("]")
	// internal/rng: the digit values and the accumulation step of seedToInt64, IntBetween
	var rngRows []string
	for _, name := range []string{"seed.go", "rng.go"} {
		f3, err := parser.ParseFile(fset, filepath.Join(repo, "internal", "rng", name), nil, 0)
		if err != nil {
			fmt.Fprintln(os.Stderr, err)
			os.Exit(1)
		}
		collectConsts(f3)
		if c, ok := consts["radix"]; ok {
			rngRows = append(rngRows, "  (\"radix\", [], "+expr(c, map[string]string{}, fset)+")")
		}
		for _, d := range f3.Decls {
			fd, ok := d.(*ast.FuncDecl)
			if !ok || fd.Body == nil {
				continue
			}
			switch fd.Name.Name {
			case "toRadix36", "IntBetween":
				rngRows = append(rngRows, "  ("+q(fd.Name.Name)+", "+paramList(fd.Type)+", "+stmts(fd.Body.List, map[string]string{}, fset)+")")
			case "seedToInt64":
				// the accumulation inside the loop over the runes: `result = <step>`
				step := "(.unsupported \"no accumulation found\")"
				ast.Inspect(fd.Body, func(n ast.Node) bool {
					if rs, ok := n.(*ast.RangeStmt); ok {
						for _, st := range rs.Body.List {
							if as, ok := st.(*ast.AssignStmt); ok && as.Tok == token.ASSIGN && len(as.Lhs) == 1 && len(as.Rhs) == 1 {
								if id, ok := as.Lhs[0].(*ast.Ident); ok && id.Name == "result" {
									step = expr(as.Rhs[0], map[string]string{}, fset)
								}
							}
						}
					}
					return true
				})
				rngRows = append(rngRows, "  (\"seedToInt64.step\", [(\"result\", \"int64\"), (\"v\", \"int64\")], "+step+")")
			}
		}
	}
	consts = map[string]ast.Expr{}
	// markup/processors.go: the tagless switch of processOrdinal that picks the plural case
	f4, err := parser.ParseFile(fset, filepath.Join(repo, "markup", "processors.go"), nil, 0)
	if err != nil {
		fmt.Fprintln(os.Stderr, err)
		os.Exit(1)
	}
	strConsts := map[string]string{}
	for _, d := range f4.Decls {
		if gd, ok := d.(*ast.GenDecl); ok && gd.Tok == token.CONST {
			for _, sp := range gd.Specs {
				vs := sp.(*ast.ValueSpec)
				for i, n := range vs.Names {
					if i < len(vs.Values) {
						if bl, ok := vs.Values[i].(*ast.BasicLit); ok && bl.Kind == token.STRING {
							if v, err := strconv.Unquote(bl.Value); err == nil {
								strConsts[n.Name] = v
							}
						}
					}
				}
			}
		}
	}
	var ordRows []string
	ordDefault := "?"
	for _, d := range f4.Decls {
		fd, ok := d.(*ast.FuncDecl)
		if !ok || fd.Body == nil || fd.Name.Name != "processOrdinal" {
			continue
		}
		locals := map[string]string{}
		for _, st := range fd.Body.List {
			switch x := st.(type) {
			case *ast.AssignStmt:
				if x.Tok == token.DEFINE && len(x.Lhs) == 1 && len(x.Rhs) == 1 {
					if id, ok := x.Lhs[0].(*ast.Ident); ok {
						if id.Name == "pluralCase" {
							if c, ok := x.Rhs[0].(*ast.Ident); ok {
								ordDefault = strConsts[c.Name]
							}
						} else if sel, ok := x.Rhs[0].(*ast.SelectorExpr); ok && sel.Sel.Name == "IntegerValue" {
							locals[id.Name] = "(.var \"n\")"
						}
					}
				}
			case *ast.SwitchStmt:
				if x.Tag != nil {
					continue
				}
				for _, cc := range x.Body.List {
					cl := cc.(*ast.CaseClause)
					target := "?"
					if len(cl.Body) == 1 {
						if as, ok := cl.Body[0].(*ast.AssignStmt); ok && len(as.Rhs) == 1 {
							if c, ok := as.Rhs[0].(*ast.Ident); ok {
								target = strConsts[c.Name]
							}
						}
					}
					for _, cond := range cl.List {
						ordRows = append(ordRows, "  ("+expr(cond, locals, fset)+", "+q(target)+")")
					}
					if len(cl.List) == 0 {
						ordRows = append(ordRows, "  ((.unsupported \"default clause\"), "+q(target)+")")
					}
				}
			}
		}
	}
	fmt.Println("/-- markup/processors.go processOrdinal: the cases of its switch in order (condition over the integer value n, plural case), and the case when none applies -/")
	fmt.Println("def ordinalSwitch : List (FE × String) := [")
	fmt.Println(strings.Join(ordRows, ",\n"))
	fmt.Println("]")
	fmt.Println("def ordinalDefault : String := " + q(ordDefault))
	fmt.Println("/-- internal/rng: radix, toRadix36, the accumulation step of seedToInt64, IntBetween -/")
	fmt.Println("def rngSrc : List (String × List (String × String) × FE) := [")
	fmt.Println(strings.Join(rngRows, ",\n"))
	fmt.Println("]")
	fmt.Println("end Ysgo.Generated")
}
