// Command pkgstate lists the package-level variables of the hand-written ysgo packages and every write to one of them
// (assignment, ++/--, map or slice store, delete/clear, address-taking) outside of var initialisers, as Lean definitions.
// usage: pkgstate <repository root>
package main

import (
	"fmt"
	"go/ast"
	"go/parser"
	"go/token"
	"os"
	"path/filepath"
	"sort"
	"strings"
)

func baseIdent(e ast.Expr) *ast.Ident {
	for {
		switch x := e.(type) {
		case *ast.Ident:
			return x
		case *ast.IndexExpr:
			e = x.X
		case *ast.SelectorExpr:
			e = x.X
		case *ast.StarExpr:
			e = x.X
		case *ast.ParenExpr:
			e = x.X
		case *ast.SliceExpr:
			e = x.X
		default:
			return nil
		}
	}
}

// initKind classifies the initialiser of a package-level variable
func initKind(e ast.Expr) string {
	switch x := e.(type) {
	case *ast.CallExpr:
		if sel, ok := x.Fun.(*ast.SelectorExpr); ok {
			if id, ok := sel.X.(*ast.Ident); ok {
				switch {
				case id.Name == "regexp" && (sel.Sel.Name == "MustCompile" || sel.Sel.Name == "MustCompilePOSIX"):
					return "regexp"
				case id.Name == "reflect" && sel.Sel.Name == "TypeOf":
					return "reflect.Type"
				}
			}
			// reflect.TypeOf(...).Elem()
			if inner, ok := sel.X.(*ast.CallExpr); ok && sel.Sel.Name == "Elem" && initKind(inner) == "reflect.Type" {
				return "reflect.Type"
			}
		}
	case *ast.CompositeLit:
		if _, ok := x.Type.(*ast.MapType); ok {
			return "map-literal"
		}
	}
	return "other"
}

func main() {
	root := os.Args[1]
	dirs := []string{".", "variable", "markup", "internal/tree", "internal/rng", "internal/container", "internal/parser"}
	var vars, writes, aliases []string
	kinds := map[string]string{}
	for _, d := range dirs {
		fset := token.NewFileSet()
		pkgs, err := parser.ParseDir(fset, filepath.Join(root, d), func(fi os.FileInfo) bool {
			n := fi.Name()
			return !strings.HasSuffix(n, "_test.go") && !strings.HasSuffix(n, "_verif.go") &&
				!strings.HasPrefix(n, "yarnspinner") // ANTLR-generated files: their static data is the runtime's business (DESIGN §7)
		}, 0)
		if err != nil {
			fmt.Fprintln(os.Stderr, err)
			os.Exit(1)
		}
		for _, pkg := range pkgs {
			globals := map[*ast.Object]string{}
			names := map[string]bool{}
			for _, f := range pkg.Files {
				for _, decl := range f.Decls {
					if gd, ok := decl.(*ast.GenDecl); ok && gd.Tok == token.VAR {
						for _, sp := range gd.Specs {
							vs := sp.(*ast.ValueSpec)
							for i, name := range vs.Names {
								if name.Name != "_" {
									globals[name.Obj] = name.Name
									names[name.Name] = true
									vars = append(vars, pkg.Name+"."+name.Name)
									kind := "other"
									if i < len(vs.Values) {
										kind = initKind(vs.Values[i])
									}
									kinds[pkg.Name+"."+name.Name] = kind
								}
							}
						}
					}
				}
			}
			// a reference-kind global (a map literal) that is handed on as a value — stored in a field, returned, passed to a
			// function — can be written through the alias where no syntactic write to the global itself is visible: the only
			// uses that keep it read-only for sure are indexing, ranging, len() and maps.Clone()
			for fname, f := range pkg.Files {
				readOnlyUse := map[token.Pos]bool{}
				declared := map[token.Pos]bool{}
				ast.Inspect(f, func(n ast.Node) bool {
					mark := func(e ast.Expr) {
						if id, ok := e.(*ast.Ident); ok {
							readOnlyUse[id.Pos()] = true
						}
					}
					switch x := n.(type) {
					case *ast.IndexExpr:
						mark(x.X)
					case *ast.RangeStmt:
						mark(x.X)
					case *ast.CallExpr:
						if id, ok := x.Fun.(*ast.Ident); ok && id.Name == "len" && len(x.Args) == 1 {
							mark(x.Args[0])
						}
						if sel, ok := x.Fun.(*ast.SelectorExpr); ok && sel.Sel.Name == "Clone" && len(x.Args) == 1 {
							if pk, ok := sel.X.(*ast.Ident); ok && pk.Name == "maps" {
								mark(x.Args[0])
							}
						}
					case *ast.ValueSpec:
						for _, nm := range x.Names {
							declared[nm.Pos()] = true
						}
					}
					return true
				})
				ast.Inspect(f, func(n ast.Node) bool {
					id, ok := n.(*ast.Ident)
					if !ok || declared[id.Pos()] || readOnlyUse[id.Pos()] {
						return true
					}
					name, isGlobal := "", false
					if id.Obj != nil {
						name, isGlobal = globals[id.Obj]
					} else if names[id.Name] {
						name, isGlobal = id.Name, true
					}
					if isGlobal && kinds[pkg.Name+"."+name] == "map-literal" {
						aliases = append(aliases, fmt.Sprintf("alias %s.%s in %s", pkg.Name, name, filepath.Base(fname)))
					}
					return true
				})
			}
			for fname, f := range pkg.Files {
				ast.Inspect(f, func(n ast.Node) bool {
					check := func(e ast.Expr, kind string) {
						id := baseIdent(e)
						if id == nil {
							return
						}
						name, ok := "", false
						if id.Obj != nil {
							name, ok = globals[id.Obj]
						} else if names[id.Name] { // a reference to a variable declared in another file of the package
							name, ok = id.Name, true
						}
						if ok {
							writes = append(writes, fmt.Sprintf("%s %s.%s in %s", kind, pkg.Name, name, filepath.Base(fname)))
						}
					}
					switch x := n.(type) {
					case *ast.AssignStmt:
						if x.Tok != token.DEFINE {
							for _, l := range x.Lhs {
								check(l, "write")
							}
						}
					case *ast.IncDecStmt:
						check(x.X, "write")
					case *ast.UnaryExpr:
						if x.Op == token.AND {
							check(x.X, "addr")
						}
					case *ast.CallExpr:
						if id, ok := x.Fun.(*ast.Ident); ok && (id.Name == "delete" || id.Name == "clear" || id.Name == "append" || id.Name == "copy") && len(x.Args) > 0 {
							if id.Name != "append" {
								check(x.Args[0], "write")
							}
						}
					}
					return true
				})
			}
		}
	}
	sort.Strings(vars)
	sort.Strings(writes)
	sort.Strings(aliases)
	q := func(xs []string) string {
		parts := make([]string, len(xs))
		for i, x := range xs {
			parts[i] = fmt.Sprintf("%q", x)
		}
		return "[" + strings.Join(parts, ", ") + "]"
	}
	fmt.Println("/-! GENERATED by tools/pkgstate from the repository's hand-written packages — do not edit -/")
	fmt.Println("namespace Ysgo.Generated")
	fmt.Println("/-- package-level variables of the hand-written packages -/")
	fmt.Println("def packageVars : List String := " + q(vars))
	pairs := make([]string, len(vars))
	for i, v := range vars {
		pairs[i] = fmt.Sprintf("(%q, %q)", v, kinds[v])
	}
	fmt.Println("/-- how each of them is initialised: regexp (regexp.MustCompile: safe for concurrent use), reflect.Type (immutable),")
	fmt.Println("map-literal (read-only as long as there is no write), other -/")
	fmt.Println("def packageVarKinds : List (String × String) := [" + strings.Join(pairs, ", ") + "]")
	fmt.Println("/-- writes to (or address-taking of) a package-level variable outside of its initialiser -/")
	fmt.Println("def packageWrites : List String := " + q(writes))
	fmt.Println("/-- uses of a map-literal package-level variable as a value (stored, returned, passed on): it could be written through the alias -/")
	fmt.Println("def packageAliases : List String := " + q(aliases))
	fmt.Println("end Ysgo.Generated")
}
