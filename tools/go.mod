module veriftools

go 1.22
