// Command evalfacts translates the decision tables of the evaluator into Lean data: the operator switch of
// evaluateBinaryOperation (per operator: which operand-type guard leads to which Go operation, in which operand order),
// its lazy tests, the same-type guard, the built-in function registry of newFunctionStorer, and the token-to-operator maps
// of internal/tree/expression.go. usage: evalfacts <repository root>
package main

import (
	"fmt"
	"go/ast"
	"go/parser"
	"go/printer"
	"go/token"
	"os"
	"path/filepath"
	"sort"
	"strings"
)

var fset = token.NewFileSet()

func die(format string, args ...any) {
	fmt.Fprintf(os.Stderr, format+"\n", args...)
	os.Exit(1)
}

// canon renames the local variables of evaluateBinaryOperation to the names the facts are written in: what matters is their
// role (the value of the first / second evaluated operand, the three same-type flags), not what the maintainers call them
var canon = strings.NewReplacer()

func src(n ast.Node) string {
	var b strings.Builder
	printer.Fprint(&b, fset, n)
	return canon.Replace(strings.Join(strings.Fields(b.String()), " "))
}

// detectNames finds the locals by role: the first and the second `x, err := evaluateExpression(...)`, and the flags defined
// as `a.Number != nil && b.Number != nil` (resp. Boolean, String)
func detectNames(fn *ast.FuncDecl) {
	var operands []string
	flags := map[string]string{}
	ast.Inspect(fn.Body, func(n ast.Node) bool {
		as, ok := n.(*ast.AssignStmt)
		if !ok || as.Tok != token.DEFINE || len(as.Rhs) != 1 {
			return true
		}
		if call, ok := as.Rhs[0].(*ast.CallExpr); ok && len(as.Lhs) == 2 {
			if id, ok := call.Fun.(*ast.Ident); ok && id.Name == "evaluateExpression" {
				if v, ok := as.Lhs[0].(*ast.Ident); ok {
					operands = append(operands, v.Name)
				}
			}
		}
		if be, ok := as.Rhs[0].(*ast.BinaryExpr); ok && be.Op == token.LAND && len(as.Lhs) == 1 {
			var b strings.Builder
			printer.Fprint(&b, fset, be)
			text := b.String()
			if v, ok := as.Lhs[0].(*ast.Ident); ok {
				switch {
				case strings.Count(text, ".Number != nil") == 2:
					flags[v.Name] = "bothOperandsAreNumbers"
				case strings.Count(text, ".Boolean != nil") == 2:
					flags[v.Name] = "bothOperandsAreBooleans"
				case strings.Count(text, ".String != nil") == 2:
					flags[v.Name] = "bothOperandsAreStrings"
				}
			}
		}
		return true
	})
	var pairs []string
	if len(operands) >= 2 {
		pairs = append(pairs, operands[0], "leftOperandValue", operands[1], "rightOperandValue")
	}
	for from, to := range flags {
		pairs = append(pairs, from, to)
	}
	// (identity pairs are harmless; names that are substrings of one another do not occur among Go identifiers chosen by role)
	canon = strings.NewReplacer(pairs...)
}

func parse(path string) *ast.File {
	f, err := parser.ParseFile(fset, path, nil, 0)
	if err != nil {
		die("%v", err)
	}
	return f
}

func findFunc(f *ast.File, name string) *ast.FuncDecl {
	for _, d := range f.Decls {
		if fd, ok := d.(*ast.FuncDecl); ok && fd.Name.Name == name {
			return fd
		}
	}
	die("function %s not found", name)
	return nil
}

// operandOrder says in which order the two operand values occur in an expression
func operandOrder(e ast.Expr) string {
	s := src(e)
	l, r := strings.Index(s, "leftOperandValue"), strings.Index(s, "rightOperandValue")
	switch {
	case l >= 0 && r >= 0 && l < r:
		return "LR"
	case l >= 0 && r >= 0:
		return "RL"
	case l >= 0:
		return "L"
	case r >= 0:
		return "R"
	}
	return "-"
}

// resultOf canonicalises the value expression of `return <value>, nil`
func resultOf(e ast.Expr) string {
	if _, ok := e.(*ast.Ident); ok {
		if src(e) == "rightOperandValue" {
			return "right"
		}
		if src(e) == "leftOperandValue" {
			return "left"
		}
	}
	call, ok := e.(*ast.CallExpr)
	if !ok || len(call.Args) != 1 {
		return "?" + src(e)
	}
	ctor := src(call.Fun)
	kind := map[string]string{"variable.NewNumber": "num", "variable.NewBoolean": "bool", "variable.NewString": "str"}[ctor]
	if kind == "" {
		return "?" + src(e)
	}
	arg := call.Args[0]
	for {
		if p, ok := arg.(*ast.ParenExpr); ok {
			arg = p.X
			continue
		}
		break
	}
	switch x := arg.(type) {
	case *ast.BinaryExpr:
		return kind + ":" + x.Op.String() + ":" + operandOrder(x)
	case *ast.CallExpr:
		return kind + ":" + src(x.Fun) + ":" + operandOrder(x)
	}
	return "?" + src(e)
}

type guardResult struct{ guard, result string }

// ifChain flattens `if g1 { return v1, nil } else if g2 { return v2, nil }`
func ifChain(s *ast.IfStmt, out *[]guardResult) bool {
	guard, ok := s.Cond.(*ast.Ident)
	if !ok || len(s.Body.List) != 1 {
		return false
	}
	ret, ok := s.Body.List[0].(*ast.ReturnStmt)
	if !ok || len(ret.Results) != 2 || src(ret.Results[1]) != "nil" {
		return false
	}
	*out = append(*out, guardResult{strings.TrimPrefix(src(guard), "bothOperandsAre"), resultOf(ret.Results[0])})
	switch e := s.Else.(type) {
	case nil:
		return true
	case *ast.IfStmt:
		return ifChain(e, out)
	}
	return false
}

func quote(xs []string) string {
	parts := make([]string, len(xs))
	for i, x := range xs {
		parts[i] = fmt.Sprintf("%q", x)
	}
	return "[" + strings.Join(parts, ", ") + "]"
}

func main() {
	root := os.Args[1]
	ev := parse(filepath.Join(root, "evaluator.go"))
	fn := findFunc(ev, "evaluateBinaryOperation")
	detectNames(fn)
	var lazy []string
	sameTypeGuard := false
	var cases []string
	for _, st := range fn.Body.List {
		switch s := st.(type) {
		case *ast.IfStmt:
			c := src(s.Cond)
			switch {
			case strings.HasPrefix(c, "operator == tree."):
				// lazy evaluation: if left is not a boolean -> error; if (!)left -> return left
				op := strings.TrimSuffix(strings.TrimPrefix(c, "operator == tree."), "BinaryOperator")
				if len(s.Body.List) != 2 {
					die("unrecognised lazy block for %s", op)
				}
				second, ok := s.Body.List[1].(*ast.IfStmt)
				if !ok || len(second.Body.List) != 1 || src(second.Body.List[0]) != "return leftOperandValue, nil" {
					die("unrecognised lazy return for %s", op)
				}
				first, ok := s.Body.List[0].(*ast.IfStmt)
				if !ok || src(first.Cond) != "leftOperandValue.Boolean == nil" {
					die("unrecognised lazy type test for %s", op)
				}
				lazy = append(lazy, fmt.Sprintf("(%q, %q)", op, src(second.Cond)))
			case c == "!(bothOperandsAreNumbers || bothOperandsAreBooleans || bothOperandsAreStrings)":
				sameTypeGuard = true
			}
		case *ast.SwitchStmt:
			if src(s.Tag) != "operator" {
				die("unrecognised switch")
			}
			for _, cl := range s.Body.List {
				cc := cl.(*ast.CaseClause)
				if len(cc.List) != 1 {
					die("unrecognised case list")
				}
				op := strings.TrimSuffix(strings.TrimPrefix(src(cc.List[0]), "tree."), "BinaryOperator")
				var grs []guardResult
				hasError := false
				for _, bs := range cc.Body {
					switch b := bs.(type) {
					case *ast.IfStmt:
						if !ifChain(b, &grs) {
							die("unrecognised if chain in case %s: %s", op, src(b))
						}
					case *ast.ReturnStmt:
						if len(b.Results) == 2 && src(b.Results[0]) == "nil" && strings.HasPrefix(src(b.Results[1]), "fmt.Errorf(") {
							hasError = true
						} else {
							die("unrecognised return in case %s", op)
						}
					default:
						die("unrecognised statement in case %s: %s", op, src(bs))
					}
				}
				pairs := make([]string, len(grs))
				for i, g := range grs {
					pairs[i] = fmt.Sprintf("(%q, %q)", g.guard, g.result)
				}
				cases = append(cases, fmt.Sprintf("(%q, [%s], %v)", op, strings.Join(pairs, ", "), hasError))
			}
		}
	}
	// guards: how the three "both operands are" flags are computed
	var guards []string
	ast.Inspect(fn, func(n ast.Node) bool {
		if as, ok := n.(*ast.AssignStmt); ok && len(as.Lhs) == 1 {
			if id, ok := as.Lhs[0].(*ast.Ident); ok && strings.HasPrefix(src(id), "bothOperandsAre") {
				guards = append(guards, fmt.Sprintf("(%q, %q)", strings.TrimPrefix(src(id), "bothOperandsAre"), src(as.Rhs[0])))
			}
		}
		return true
	})

	// the built-in registry
	fs := parse(filepath.Join(root, "function_storer.go"))
	nfs := findFunc(fs, "newFunctionStorer")
	var registry []string
	ast.Inspect(nfs, func(n ast.Node) bool {
		if cl, ok := n.(*ast.CompositeLit); ok {
			if _, ok := cl.Type.(*ast.MapType); ok {
				for _, el := range cl.Elts {
					kv := el.(*ast.KeyValueExpr)
					registry = append(registry, fmt.Sprintf("(%s, %q)", src(kv.Key), src(kv.Value)))
				}
			}
		}
		return true
	})
	sort.Strings(registry)
	rn := parse(filepath.Join(root, "runner.go"))
	var runnerFns []string
	ast.Inspect(findFunc(rn, "NewDialogueRunner"), func(n ast.Node) bool {
		if call, ok := n.(*ast.CallExpr); ok && src(call.Fun) == "functionStorer.convertAndAddFunction" {
			runnerFns = append(runnerFns, strings.Trim(src(call.Args[0]), "\""))
		}
		return true
	})
	sort.Strings(runnerFns)

	// token maps and operator constants
	ex := parse(filepath.Join(root, "internal", "tree", "expression.go"))
	tokenMap := func(name string) []string {
		var out []string
		ast.Inspect(findFunc(ex, name), func(n ast.Node) bool {
			if cl, ok := n.(*ast.CompositeLit); ok {
				for _, el := range cl.Elts {
					kv := el.(*ast.KeyValueExpr)
					out = append(out, fmt.Sprintf("(%q, %q)", strings.TrimPrefix(src(kv.Key), "parser.YarnSpinnerLexer"), src(kv.Value)))
				}
			}
			return true
		})
		sort.Strings(out)
		return out
	}
	var consts []string
	for _, d := range ex.Decls {
		if gd, ok := d.(*ast.GenDecl); ok && gd.Tok == token.CONST {
			for _, sp := range gd.Specs {
				vs := sp.(*ast.ValueSpec)
				c := vs.Names[0].Name
				if len(vs.Values) > 0 {
					c += " = " + src(vs.Values[0])
				}
				consts = append(consts, c)
			}
		}
	}

	fmt.Println("/-! GENERATED by tools/evalfacts from evaluator.go, function_storer.go, runner.go and internal/tree/expression.go — do not edit -/")
	fmt.Println("namespace Ysgo.Generated")
	fmt.Println("/-- the operator switch of evaluateBinaryOperation: (operator, [(guard, result)], has a trailing error return) -/")
	fmt.Println("def opSwitch : List (String × List (String × String) × Bool) := [")
	fmt.Println("  " + strings.Join(cases, ",\n  "))
	fmt.Println("]")
	fmt.Println("/-- the lazy tests before the right operand is evaluated: (operator, condition on the left value under which it is returned) -/")
	fmt.Println("def lazyTests : List (String × String) := [" + strings.Join(lazy, ", ") + "]")
	fmt.Println("/-- the operands must have the same type before the switch is entered -/")
	fmt.Printf("def sameTypeGuard : Bool := %v\n", sameTypeGuard)
	fmt.Println("/-- how the three guards are computed -/")
	fmt.Println("def guards : List (String × String) := [" + strings.Join(guards, ", ") + "]")
	fmt.Println("/-- the map literals of newFunctionStorer: built-in name ↦ Go expression bound to it -/")
	fmt.Println("def builtinRegistry : List (String × String) := [" + strings.Join(registry, ", ") + "]")
	fmt.Println("/-- the functions NewDialogueRunner adds -/")
	fmt.Println("def runnerBuiltins : List String := " + quote(runnerFns))
	fmt.Println("/-- tokenToBinaryOperator / tokenToInplaceOperator -/")
	fmt.Println("def tokenToBinary : List (String × String) := [" + strings.Join(tokenMap("tokenToBinaryOperator"), ", ") + "]")
	fmt.Println("def tokenToInplace : List (String × String) := [" + strings.Join(tokenMap("tokenToInplaceOperator"), ", ") + "]")
	fmt.Println("/-- the operator constants in declaration order -/")
	fmt.Println("def operatorConsts : List String := " + quote(consts))
	fmt.Println("end Ysgo.Generated")
}
