// statefacts extracts, from runner.go and markup/line_parser.go, where the fields of DialogueRunner and LineParser are
// written: the models' claim "the state of a runner is exactly these components and RestoreAt resets all of them" /
// "a LineParser carries nothing from one line to the next" is tied to the code by facts decided in Props/C07Facts.lean.
package main

import (
	"fmt"
	"go/ast"
	"go/parser"
	"go/token"
	"os"
	"path/filepath"
	"sort"
	"strconv"
	"strings"
)

func q(s string) string { return strconv.Quote(s) }

func list(xs []string) string {
	qs := make([]string, len(xs))
	for i, x := range xs {
		qs[i] = q(x)
	}
	return "[" + strings.Join(qs, ", ") + "]"
}

func selName(e ast.Expr) string {
	switch x := e.(type) {
	case *ast.Ident:
		return x.Name
	case *ast.SelectorExpr:
		if p := selName(x.X); p != "" {
			return p + "." + x.Sel.Name
		}
	}
	return ""
}

func typeString(e ast.Expr) string {
	switch t := e.(type) {
	case *ast.Ident:
		return t.Name
	case *ast.StarExpr:
		return "*" + typeString(t.X)
	case *ast.SelectorExpr:
		return typeString(t.X) + "." + t.Sel.Name
	case *ast.MapType:
		return "map[" + typeString(t.Key) + "]" + typeString(t.Value)
	case *ast.ArrayType:
		return "[]" + typeString(t.Elt)
	case *ast.ChanType:
		return "chan " + typeString(t.Value)
	case *ast.IndexExpr:
		return typeString(t.X) + "[" + typeString(t.Index) + "]"
	case *ast.InterfaceType:
		return "interface"
	case *ast.FuncType:
		return "func"
	}
	return fmt.Sprintf("%T", e)
}

type facts struct {
	fields []string
	types  map[string]string
	writes map[string]map[string]bool            // field -> functions writing it directly
	calls  map[string]map[string]map[string]bool // field -> function -> methods called on it
	order  map[string][]string                   // function -> fields assigned by its leading straight-line assignments, in order
}

func newFacts() *facts {
	return &facts{types: map[string]string{}, writes: map[string]map[string]bool{}, calls: map[string]map[string]map[string]bool{}, order: map[string][]string{}}
}

// fieldOf returns f when e is <recv>.f (possibly indexed: <recv>.f[k])
func fieldOf(e ast.Expr, recv string) (string, bool) {
	for {
		switch x := e.(type) {
		case *ast.IndexExpr:
			e = x.X
			continue
		case *ast.ParenExpr:
			e = x.X
			continue
		case *ast.StarExpr:
			e = x.X
			continue
		case *ast.SelectorExpr:
			if id, ok := x.X.(*ast.Ident); ok && id.Name == recv {
				return x.Sel.Name, true
			}
			return "", false
		default:
			return "", false
		}
	}
}

func (f *facts) write(field, fn string) {
	if f.writes[field] == nil {
		f.writes[field] = map[string]bool{}
	}
	f.writes[field][fn] = true
}

func (f *facts) call(field, fn, method string) {
	if f.calls[field] == nil {
		f.calls[field] = map[string]map[string]bool{}
	}
	if f.calls[field][fn] == nil {
		f.calls[field][fn] = map[string]bool{}
	}
	f.calls[field][fn][method] = true
}

func (f *facts) scan(fn string, recv string, body ast.Node) {
	ast.Inspect(body, func(n ast.Node) bool {
		switch s := n.(type) {
		case *ast.AssignStmt:
			for _, l := range s.Lhs {
				if fld, ok := fieldOf(l, recv); ok {
					f.write(fld, fn)
				}
			}
		case *ast.IncDecStmt:
			if fld, ok := fieldOf(s.X, recv); ok {
				f.write(fld, fn)
			}
		case *ast.UnaryExpr:
			if s.Op == token.AND {
				if fld, ok := fieldOf(s.X, recv); ok {
					f.write(fld, fn) // the address escapes: anything may write through it
				}
			}
		case *ast.CallExpr:
			if id, ok := s.Fun.(*ast.Ident); ok && (id.Name == "delete" || id.Name == "clear") && len(s.Args) > 0 {
				if fld, ok := fieldOf(s.Args[0], recv); ok {
					f.write(fld, fn)
				}
			}
			if sel, ok := s.Fun.(*ast.SelectorExpr); ok {
				if fld, ok := fieldOf(sel.X, recv); ok {
					f.call(fld, fn, sel.Sel.Name)
				}
			}
		case *ast.CompositeLit:
			// &T{f: v, ...} in a constructor
			if id, ok := s.Type.(*ast.Ident); ok && id.Name == recv {
				for _, el := range s.Elts {
					if kv, ok := el.(*ast.KeyValueExpr); ok {
						if k, ok := kv.Key.(*ast.Ident); ok {
							f.write(k.Name, fn)
						}
					}
				}
			}
		}
		return true
	})
}

// leading returns the fields assigned by the plain assignment statements at the start of a body (before anything else)
func leading(body *ast.BlockStmt, recv string) (fields []string, rest []ast.Stmt) {
	for i, st := range body.List {
		as, ok := st.(*ast.AssignStmt)
		if !ok || as.Tok != token.ASSIGN || len(as.Lhs) != 1 {
			return fields, body.List[i:]
		}
		sel, ok := as.Lhs[0].(*ast.SelectorExpr)
		if !ok {
			return fields, body.List[i:]
		}
		id, ok := sel.X.(*ast.Ident)
		if !ok || id.Name != recv {
			return fields, body.List[i:]
		}
		fields = append(fields, sel.Sel.Name)
	}
	return fields, nil
}

func structFields(file *ast.File, name string, f *facts) {
	ast.Inspect(file, func(n ast.Node) bool {
		ts, ok := n.(*ast.TypeSpec)
		if !ok || ts.Name.Name != name {
			return true
		}
		st, ok := ts.Type.(*ast.StructType)
		if !ok {
			return true
		}
		for _, fl := range st.Fields.List {
			for _, nm := range fl.Names {
				f.fields = append(f.fields, nm.Name)
				f.types[nm.Name] = typeString(fl.Type)
			}
			if len(fl.Names) == 0 {
				f.fields = append(f.fields, "(embedded "+typeString(fl.Type)+")")
			}
		}
		return false
	})
}

func recvOf(fd *ast.FuncDecl, typ string) (string, bool) {
	if fd.Recv == nil || len(fd.Recv.List) != 1 || len(fd.Recv.List[0].Names) != 1 {
		return "", false
	}
	t := fd.Recv.List[0].Type
	if s, ok := t.(*ast.StarExpr); ok {
		t = s.X
	}
	if id, ok := t.(*ast.Ident); ok && id.Name == typ {
		return fd.Recv.List[0].Names[0].Name, true
	}
	return "", false
}

func sortedKeys(m map[string]bool) []string {
	var ks []string
	for k := range m {
		ks = append(ks, k)
	}
	sort.Strings(ks)
	return ks
}

func main() {
	repo := os.Getenv("VERIF_REPO")
	if repo == "" {
		repo = "/repo"
	}
	if len(os.Args) > 1 {
		repo = os.Args[1]
	}
	fset := token.NewFileSet()
	fmt.Println("/-! GENERATED by tools/statefacts from runner.go and markup/line_parser.go — do not edit -/")
	fmt.Println("namespace Ysgo.Generated")

	// --- DialogueRunner: every non-test file of the root package
	rf := newFacts()
	matches, _ := filepath.Glob(filepath.Join(repo, "*.go"))
	sort.Strings(matches)
	for _, path := range matches {
		if strings.HasSuffix(path, "_test.go") || strings.HasSuffix(path, "_verif.go") {
			continue
		}
		file, err := parser.ParseFile(fset, path, nil, 0)
		if err != nil {
			fmt.Fprintln(os.Stderr, err)
			os.Exit(1)
		}
		structFields(file, "DialogueRunner", rf)
		for _, d := range file.Decls {
			fd, ok := d.(*ast.FuncDecl)
			if !ok || fd.Body == nil {
				continue
			}
			if recv, ok := recvOf(fd, "DialogueRunner"); ok {
				rf.scan(fd.Name.Name, recv, fd.Body)
			} else if fd.Name.Name == "NewDialogueRunner" {
				// the constructor: the composite literal, and writes through the local variable it is bound to
				rf.scan(fd.Name.Name, "DialogueRunner", fd.Body)
				ast.Inspect(fd.Body, func(n ast.Node) bool {
					if as, ok := n.(*ast.AssignStmt); ok && as.Tok == token.DEFINE && len(as.Lhs) == 1 && len(as.Rhs) == 1 {
						if u, ok := as.Rhs[0].(*ast.UnaryExpr); ok {
							if cl, ok := u.X.(*ast.CompositeLit); ok {
								if id, ok := cl.Type.(*ast.Ident); ok && id.Name == "DialogueRunner" {
									if v, ok := as.Lhs[0].(*ast.Ident); ok {
										rf.scan(fd.Name.Name, v.Name, fd.Body)
									}
								}
							}
						}
					}
					return true
				})
			}
		}
	}
	fmt.Println("/-- the fields of DialogueRunner with their types -/")
	var rows []string
	for _, f := range rf.fields {
		rows = append(rows, "("+q(f)+", "+q(rf.types[f])+")")
	}
	fmt.Println("def runnerFields : List (String × String) := [" + strings.Join(rows, ", ") + "]")
	fmt.Println("/-- field ↦ the functions that write it directly (assignment, increment or decrement, index assignment, delete/clear, address taken, constructor literal) -/")
	rows = nil
	for _, f := range rf.fields {
		rows = append(rows, "("+q(f)+", "+list(sortedKeys(rf.writes[f]))+")")
	}
	fmt.Println("def runnerWrites : List (String × List String) := [" + strings.Join(rows, ",\n  ") + "]")
	fmt.Println("/-- field ↦ function ↦ the methods called on the field there -/")
	rows = nil
	for _, f := range rf.fields {
		var per []string
		var fns []string
		for fn := range rf.calls[f] {
			fns = append(fns, fn)
		}
		sort.Strings(fns)
		for _, fn := range fns {
			per = append(per, "("+q(fn)+", "+list(sortedKeys(rf.calls[f][fn]))+")")
		}
		rows = append(rows, "("+q(f)+", ["+strings.Join(per, ", ")+"])")
	}
	fmt.Println("def runnerCalls : List (String × List (String × List String)) := [" + strings.Join(rows, ",\n  ") + "]")

	// --- LineParser
	lf := newFacts()
	file, err := parser.ParseFile(fset, filepath.Join(repo, "markup", "line_parser.go"), nil, 0)
	if err != nil {
		fmt.Fprintln(os.Stderr, err)
		os.Exit(1)
	}
	structFields(file, "LineParser", lf)
	bodies := map[string]*ast.FuncDecl{}
	recvs := map[string]string{}
	for _, d := range file.Decls {
		if fd, ok := d.(*ast.FuncDecl); ok && fd.Body != nil {
			if recv, ok := recvOf(fd, "LineParser"); ok {
				bodies[fd.Name.Name] = fd
				recvs[fd.Name.Name] = recv
				lf.scan(fd.Name.Name, recv, fd.Body)
			}
		}
	}
	// the fields assigned, unconditionally and before anything is read, on entry of ParseMarkup: its leading assignments, and —
	// when what follows is just `return recv.m()` — the leading assignments of m, and so on
	var reset []string
	fn := "ParseMarkup"
	for depth := 0; depth < 4 && bodies[fn] != nil; depth++ {
		fs, rest := leading(bodies[fn].Body, recvs[fn])
		reset = append(reset, fs...)
		next := ""
		if len(rest) == 1 {
			if ret, ok := rest[0].(*ast.ReturnStmt); ok && len(ret.Results) == 1 {
				if call, ok := ret.Results[0].(*ast.CallExpr); ok && len(call.Args) == 0 {
					if sel, ok := call.Fun.(*ast.SelectorExpr); ok {
						if id, ok := sel.X.(*ast.Ident); ok && id.Name == recvs[fn] {
							next = sel.Sel.Name
						}
					}
				}
			}
		}
		if next == "" {
			break
		}
		fn = next
	}
	fmt.Println("/-- the fields of markup.LineParser -/")
	fmt.Println("def lineParserFields : List String := " + list(lf.fields))
	fmt.Println("/-- the fields assigned unconditionally on entry of ParseMarkup, before anything is read -/")
	fmt.Println("def lineParserResetOnEntry : List String := " + list(reset))
	// --- variable.InMemoryStorer: what each mutating method does to the three maps, in order
	sfile, err := parser.ParseFile(fset, filepath.Join(repo, "variable", "in_memory_storer.go"), nil, 0)
	if err != nil {
		fmt.Fprintln(os.Stderr, err)
		os.Exit(1)
	}
	sf := newFacts()
	structFields(sfile, "InMemoryStorer", sf)
	var srows []string
	for _, d := range sfile.Decls {
		fd, ok := d.(*ast.FuncDecl)
		if !ok || fd.Body == nil {
			continue
		}
		recv, ok := recvOf(fd, "InMemoryStorer")
		if !ok {
			continue
		}
		var ops []string
		ast.Inspect(fd.Body, func(n ast.Node) bool {
			switch st := n.(type) {
			case *ast.AssignStmt:
				for _, l := range st.Lhs {
					if _, isIndex := l.(*ast.IndexExpr); isIndex {
						if fld, ok := fieldOf(l, recv); ok {
							ops = append(ops, "("+q("set")+", "+q(fld)+")")
						}
					} else if fld, ok := fieldOf(l, recv); ok {
						ops = append(ops, "("+q("reset")+", "+q(fld)+")")
					}
				}
			case *ast.CallExpr:
				if id, ok := st.Fun.(*ast.Ident); ok && len(st.Args) > 0 {
					if fld, ok := fieldOf(st.Args[0], recv); ok && (id.Name == "delete" || id.Name == "clear") {
						ops = append(ops, "("+q(id.Name)+", "+q(fld)+")")
					}
				}
			}
			return true
		})
		if len(ops) > 0 {
			srows = append(srows, "("+q(fd.Name.Name)+", ["+strings.Join(ops, ", ")+"])")
		}
	}
	sort.Strings(srows)
	fmt.Println("/-- the maps of variable.InMemoryStorer -/")
	fmt.Println("def storerMaps : List String := " + list(sf.fields))
	var mt []string
	for _, f := range sf.fields {
		mt = append(mt, "("+q(f)+", "+q(sf.types[f])+")")
	}
	fmt.Println("/-- the maps with their Go types -/")
	fmt.Println("def storerMapTypes : List (String × String) := [" + strings.Join(mt, ", ") + "]")
	fmt.Println("/-- method ↦ what it does to the maps: (set | delete | clear | reset, map) in source order -/")
	fmt.Println("def storerOps : List (String × List (String × String)) := [" + strings.Join(srows, ",\n  ") + "]")
	// --- internal/tree/creator.go FromReader: the order of what matters for "syntax errors are reported and nothing is built
	// from a parse that had one": calls on the lexer, the token stream and the parser, the early return on collected errors, the walk
	cfile, err := parser.ParseFile(fset, filepath.Join(repo, "internal", "tree", "creator.go"), nil, 0)
	if err != nil {
		fmt.Fprintln(os.Stderr, err)
		os.Exit(1)
	}
	var steps []string
	for _, d := range cfile.Decls {
		fd, ok := d.(*ast.FuncDecl)
		if !ok || fd.Body == nil || fd.Name.Name != "FromReader" {
			continue
		}
		// which local names are the lexer, the stream, the parser, the error listener
		role := map[string]string{}
		ast.Inspect(fd.Body, func(n ast.Node) bool {
			vs, ok := n.(*ast.ValueSpec)
			if ok {
				for i, nm := range vs.Names {
					if i < len(vs.Values) {
						if call, ok := vs.Values[i].(*ast.CallExpr); ok {
							switch selName(call.Fun) {
							case "parser.NewYarnSpinnerLexer":
								role[nm.Name] = "lexer"
							case "antlr.NewCommonTokenStream":
								role[nm.Name] = "stream"
							case "parser.NewYarnSpinnerParser":
								role[nm.Name] = "parser"
							}
						}
					}
				}
			}
			if as, ok := n.(*ast.AssignStmt); ok && as.Tok == token.DEFINE && len(as.Lhs) == 1 && len(as.Rhs) == 1 {
				if id, ok := as.Lhs[0].(*ast.Ident); ok {
					if call, ok := as.Rhs[0].(*ast.CallExpr); ok {
						switch selName(call.Fun) {
						case "parser.NewYarnSpinnerLexer":
							role[id.Name] = "lexer"
						case "antlr.NewCommonTokenStream":
							role[id.Name] = "stream"
						case "parser.NewYarnSpinnerParser":
							role[id.Name] = "parser"
						}
					}
					if u, ok := as.Rhs[0].(*ast.UnaryExpr); ok {
						if cl, ok := u.X.(*ast.CompositeLit); ok {
							if t, ok := cl.Type.(*ast.Ident); ok && t.Name == "syntaxErrorListener" {
								role[id.Name] = "errors"
							}
						}
					}
				}
			}
			return true
		})
		var visit func(st ast.Stmt)
		callsIn := func(n ast.Node) {
			ast.Inspect(n, func(m ast.Node) bool {
				call, ok := m.(*ast.CallExpr)
				if !ok {
					return true
				}
				if sel, ok := call.Fun.(*ast.SelectorExpr); ok {
					if id, ok := sel.X.(*ast.Ident); ok && role[id.Name] != "" && role[id.Name] != "errors" {
						arg := ""
						if len(call.Args) == 1 {
							if a, ok := call.Args[0].(*ast.Ident); ok && role[a.Name] == "errors" {
								arg = "(errors)"
							}
						}
						steps = append(steps, role[id.Name]+"."+sel.Sel.Name+arg)
					}
					if strings.HasSuffix(selName(call.Fun), ".Walk") {
						steps = append(steps, "walk")
					}
				}
				return true
			})
		}
		visit = func(st ast.Stmt) {
			if ifs, ok := st.(*ast.IfStmt); ok {
				// `if len(<errors>.errors) != 0 { return nil, … }`
				cond := fmt.Sprint(ifs.Cond)
				_ = cond
				isErrCheck := false
				ast.Inspect(ifs.Cond, func(m ast.Node) bool {
					if sel, ok := m.(*ast.SelectorExpr); ok {
						if id, ok := sel.X.(*ast.Ident); ok && role[id.Name] == "errors" {
							isErrCheck = true
						}
					}
					return true
				})
				returns := false
				for _, b := range ifs.Body.List {
					if _, ok := b.(*ast.ReturnStmt); ok {
						returns = true
					}
				}
				if isErrCheck && returns {
					steps = append(steps, "return-if-errors")
					return
				}
			}
			callsIn(st)
		}
		for _, st := range fd.Body.List {
			visit(st)
		}
	}
	fmt.Println("/-- FromReader: calls on the lexer / token stream / parser, the early return on collected syntax errors, the walk — in source order -/")
	fmt.Println("def loadSteps : List String := " + list(steps))
	fmt.Println("end Ysgo.Generated")
}
