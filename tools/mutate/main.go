// mutate is a development helper: mechanical mutation of one Go source file.
//
//	mutate list <file>            prints one line per mutation site: <index> <line> <operator> <description>
//	mutate apply <file> <index>   prints the mutated file
//
// Operators: relational and arithmetic operator replacement, && <-> ||, negated if conditions, integer literals +1,
// deleted statements (expression statements, assignments, ++/--), true <-> false.
package main

import (
	"bytes"
	"fmt"
	"go/ast"
	"go/format"
	"go/parser"
	"go/token"
	"os"
	"strconv"
)

type site struct {
	line  int
	op    string
	desc  string
	apply func()
}

var swaps = map[token.Token][]token.Token{
	token.LSS: {token.LEQ}, token.LEQ: {token.LSS}, token.GTR: {token.GEQ}, token.GEQ: {token.GTR},
	token.EQL: {token.NEQ}, token.NEQ: {token.EQL},
	token.ADD: {token.SUB}, token.SUB: {token.ADD}, token.MUL: {token.QUO}, token.QUO: {token.MUL}, token.REM: {token.QUO},
	token.LAND: {token.LOR}, token.LOR: {token.LAND},
}

func collect(fset *token.FileSet, f *ast.File) []site {
	var sites []site
	add := func(pos token.Pos, op, desc string, apply func()) {
		sites = append(sites, site{fset.Position(pos).Line, op, desc, apply})
	}
	ast.Inspect(f, func(n ast.Node) bool {
		switch x := n.(type) {
		case *ast.BinaryExpr:
			// string concatenation stays: + on strings has no - counterpart that compiles
			for _, t := range swaps[x.Op] {
				old, nw := x.Op, t
				add(x.OpPos, "binop", old.String()+" -> "+nw.String(), func() { x.Op = nw })
			}
		case *ast.IfStmt:
			c := x.Cond
			add(x.Cond.Pos(), "negate-if", "if !(cond)", func() { x.Cond = &ast.UnaryExpr{Op: token.NOT, X: &ast.ParenExpr{X: c}} })
		case *ast.BasicLit:
			if x.Kind == token.INT {
				if v, err := strconv.ParseInt(x.Value, 0, 64); err == nil && v < 1000 {
					old := x.Value
					add(x.Pos(), "int+1", old+" -> "+strconv.FormatInt(v+1, 10), func() { x.Value = strconv.FormatInt(v+1, 10) })
				}
			}
		case *ast.Ident:
			if x.Name == "true" || x.Name == "false" {
				old := x.Name
				nw := map[string]string{"true": "false", "false": "true"}[old]
				add(x.Pos(), "bool", old+" -> "+nw, func() { x.Name = nw })
			}
		case *ast.BlockStmt:
			for i, st := range x.List {
				i, st := i, st
				switch st.(type) {
				case *ast.ExprStmt, *ast.IncDecStmt:
					add(st.Pos(), "delete-stmt", "statement removed", func() { x.List[i] = &ast.EmptyStmt{Implicit: false, Semicolon: st.Pos()} })
				case *ast.AssignStmt:
					if st.(*ast.AssignStmt).Tok != token.DEFINE {
						add(st.Pos(), "delete-stmt", "assignment removed", func() { x.List[i] = &ast.EmptyStmt{Semicolon: st.Pos()} })
					}
				}
			}
		}
		return true
	})
	return sites
}

func main() {
	if len(os.Args) < 3 {
		fmt.Fprintln(os.Stderr, "usage: mutate list <file> | mutate apply <file> <index>")
		os.Exit(2)
	}
	fset := token.NewFileSet()
	f, err := parser.ParseFile(fset, os.Args[2], nil, parser.ParseComments)
	if err != nil {
		fmt.Fprintln(os.Stderr, err)
		os.Exit(1)
	}
	sites := collect(fset, f)
	switch os.Args[1] {
	case "list":
		for i, s := range sites {
			fmt.Printf("%d %d %s %s\n", i, s.line, s.op, s.desc)
		}
	case "apply":
		k, _ := strconv.Atoi(os.Args[3])
		if k < 0 || k >= len(sites) {
			os.Exit(3)
		}
		sites[k].apply()
		var b bytes.Buffer
		if err := format.Node(&b, fset, f); err != nil {
			fmt.Fprintln(os.Stderr, err)
			os.Exit(1)
		}
		os.Stdout.Write(b.Bytes())
	}
}
